(* C08/Translated.v — the index arithmetic of mixture._MixtureParts as regenerated from the text of mixture.py
   (Gen/C08_code.v, Python integers = Z) is the model's: after k calls of __next__ the iterator stands at the
   model's par_index / magnetic offset of part k, and the slices _part_values / _part_details take there are the
   ones C08.Model.part_values uses (C08_routing shows those to be exactly part k's own values). *)
From Coq Require Import ZArith List Bool Arith Lia.
Import ListNotations.
From SM Require Import Base.Num C08.Model Gen.C08_code.

(* the iterator after k steps over parts with (npars, nmagnetic) given *)
Fixpoint code_iter (sum : bool) (parts : list (nat * nat)) (k : nat) (st : Z * Z) : Z * Z :=
  match k, parts with
  | S k', (n, m) :: r => code_iter sum r k' (code_advance sum (fst st) (snd st) (Z.of_nat n) (Z.of_nat m))
  | _, _ => st
  end.

Definition np_of (parts : list (nat * nat)) : list nat := map fst parts.
Definition nm_of (parts : list (nat * nat)) : list nat := map (fun p => 3 * snd p) parts.

(* When the source could not be translated, Gen/C08_code.v says [translated = false] and holds placeholders: the
   premise is then false and [untranslated] closes the goal; every later sentence is written [all: ...] so that it is
   a no-op in that case (the obligations are vacuous and the run says so). *)
Ltac untranslated Ht := try solve [vm_compute in Ht; discriminate Ht].

Lemma iter_shift sum : forall parts k a b,
  translated = true -> k <= length parts ->
  code_iter sum parts k (a, b) =
  ((a + Z.of_nat (par_index sum (np_of parts) k) - 2)%Z, (b + Z.of_nat (mag_offset (nm_of parts) k))%Z).
Proof.
  intros parts k a b Ht. untranslated Ht.
  all: clear Ht; revert k a b.
  all: induction parts as [|[n m] r IH]; intros k a b Hk;
    [ destruct k; [|simpl in Hk; lia]; simpl; f_equal; lia
    | destruct k as [|k'];
      [ simpl; f_equal; lia
      | simpl in Hk; cbn [code_iter fst snd]; unfold code_advance; rewrite IH by lia;
        cbn [np_of nm_of map fst snd par_index mag_offset]; unfold blen;
        fold (np_of r); fold (nm_of r); destruct sum; f_equal; lia ] ].
Qed.

Lemma par_index_ge2 sum : forall np k, 2 <= par_index sum np k.
Proof. induction np as [|n r IH]; intros k; destruct k; simpl; try lia. specialize (IH k). lia. Qed.

Theorem code_iterator_is_model sum parts k : translated = true -> k <= length parts ->
  let spin := code_spin_index (Z.of_nat (total sum (np_of parts))) in
  spin = Z.of_nat (total sum (np_of parts) + 2) /\
  code_iter sum parts k (code_init spin) =
  (Z.of_nat (par_index sum (np_of parts) k), Z.of_nat (total sum (np_of parts) + 2 + 4 + mag_offset (nm_of parts) k)).
Proof.
  intros Ht Hk spin. untranslated Ht.
  all: assert (Hs : spin = Z.of_nat (total sum (np_of parts) + 2)) by (unfold spin, code_spin_index; lia).
  all: split; [exact Hs|].
  all: unfold code_init; rewrite (iter_shift sum parts k _ _ Ht Hk); rewrite Hs.
  all: pose proof (par_index_ge2 sum (np_of parts) k) as H2.
  all: f_equal; lia.
Qed.

(* the slices taken at part k *)
Theorem code_slices_are_model (sum : bool) (pi mi n m spin nvalues nw : nat) : translated = true ->
  (if sum then 1 else 2) <= pi ->
  code_slices sum (Z.of_nat spin) (Z.of_nat pi) (Z.of_nat mi) (Z.of_nat n) (Z.of_nat m) (Z.of_nat nvalues) (Z.of_nat nw) =
  map Z.of_nat
    [ pi;                                                   (* the part's own scale (sums) *)
      pi + (if sum then 1 else 0); pi + n + (if sum then 1 else 0);      (* its parameters *)
      spin; spin + 4;                                       (* the shared spin state *)
      mi; mi + 3 * m;                                       (* its magnetic triples *)
      nvalues; nvalues + 2 * nw;                            (* the shared weight vector *)
      pi + (if sum then 1 else 0) - 2; pi + (if sum then 1 else 0) - 2 + n ].   (* its rows of the lengths/offsets table *)
Proof.
  intros Ht Hp. untranslated Ht.
  all: unfold code_slices; cbn [map]; destruct sum; repeat (f_equal; try lia).
Qed.
