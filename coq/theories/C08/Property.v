(* C08/Property.v — the property theorems and nothing else. *)
From Coq Require Import List Arith Permutation Reals ZArith.
Import ListNotations.
From SM Require Import Base.Num C08.Model C08.Proofs Gen.C08_code C08.Translated.

(* Routing: for every number of parts, every parameter / magnetic-slot count
   and both operations, the index arithmetic hands part k exactly its own
   scale (or 1 for products), zero background, its own parameters, the shared
   spin state with its own magnetic triples, and the shared weight vector. *)
Theorem C08_routing :
  forall (T : Type) (O : Ops T) sum scale bg (pre : list (Part (T:=T))) p post spin weights nw,
  length spin = 4 -> length weights = 2 * nw ->
  let ps := pre ++ p :: post in
  part_values O sum (npars_of ps) (nmag_of ps) (length (head sum scale bg ps spin)) nw
              (values sum scale bg ps spin weights) (length pre)
  = [ (if sum then p_scale p else one O); zero O ] ++ p_pars p
    ++ (if 0 <? length (p_mag p) then spin ++ p_mag p else []) ++ weights.
Proof. exact @routing. Qed.
Print Assumptions C08_routing.

Theorem C08_sum : forall scale bg rs,
  combine ROps true scale bg rs = (scale * Rsum rs + bg)%R.
Proof. exact combine_sum. Qed.
Print Assumptions C08_sum.

Theorem C08_product : forall scale bg rs,
  combine ROps false scale bg rs = (scale * Rprod rs + bg)%R.
Proof. exact combine_prod. Qed.
Print Assumptions C08_product.

Theorem C08_order_independent : forall sum scale bg rs rs',
  Permutation rs rs' -> combine ROps sum scale bg rs = combine ROps sum scale bg rs'.
Proof. exact combine_order. Qed.
Print Assumptions C08_order_independent.

(* the accumulator of the unrepaired code (replace the running product
   whenever it is zero) is not the product *)
Theorem C08_old_accumulator_refuted :
  exists rs, combine_prod_old ROps 1%R 0%R rs <> (1 * Rprod rs + 0)%R.
Proof. exact combine_prod_old_refuted. Qed.
Print Assumptions C08_old_accumulator_refuted.

(* ---- the index arithmetic as it is WRITTEN in mixture.py ----
   Gen/C08_code.v is regenerated on every run from the text of _MixtureParts (__init__, __iter__, __next__,
   _part_values, _part_details; Python-ast translation of the integer arithmetic, over Z).  After k calls of
   __next__ the iterator stands at the model's par_index and magnetic offset of part k, for every list of parts
   and both operations; and the slices taken there are the ones of C08.Model.part_values - which C08_routing shows
   to be exactly part k's own scale, parameters, spin state, magnetic triples and the shared weights - together
   with the part's rows of the lengths/offsets table. *)
Theorem C08_code_iterator : forall (sum : bool) (parts : list (nat * nat)) k, translated = true -> k <= length parts ->
  let spin := code_spin_index (Z.of_nat (total sum (np_of parts))) in
  spin = Z.of_nat (total sum (np_of parts) + 2) /\
  code_iter sum parts k (code_init spin) =
  (Z.of_nat (par_index sum (np_of parts) k), Z.of_nat (total sum (np_of parts) + 2 + 4 + mag_offset (nm_of parts) k)).
Proof. exact code_iterator_is_model. Qed.
Print Assumptions C08_code_iterator.

Theorem C08_code_slices : forall (sum : bool) (pi mi n m spin nvalues nw : nat), translated = true ->
  (if sum then 1 else 2) <= pi ->
  code_slices sum (Z.of_nat spin) (Z.of_nat pi) (Z.of_nat mi) (Z.of_nat n) (Z.of_nat m) (Z.of_nat nvalues) (Z.of_nat nw) =
  map Z.of_nat
    [ pi; pi + (if sum then 1 else 0); pi + n + (if sum then 1 else 0); spin; spin + 4; mi; mi + 3 * m;
      nvalues; nvalues + 2 * nw; pi + (if sum then 1 else 0) - 2; pi + (if sum then 1 else 0) - 2 + n ].
Proof. exact code_slices_are_model. Qed.
Print Assumptions C08_code_slices.
