(* C08/Property.v — the property theorems and nothing else. *)
From Coq Require Import List Arith Permutation Reals.
Import ListNotations.
From SM Require Import Base.Num C08.Model C08.Proofs.

(* Routing: for every number of parts, every parameter / magnetic-slot count
   and both operations, the index arithmetic hands part k exactly its own
   scale (or 1 for products), zero background, its own parameters, the shared
   spin state with its own magnetic triples, and the shared weight vector. *)
Theorem C08_routing :
  forall (T : Type) (O : Ops T) sum scale bg (pre : list (Part (T:=T))) p post spin weights nw,
  length spin = 4 -> length weights = 2 * nw ->
  let ps := pre ++ p :: post in
  part_values O sum (npars_of ps) (nmag_of ps) (length (head sum scale bg ps spin)) nw
              (values sum scale bg ps spin weights) (length pre)
  = [ (if sum then p_scale p else one O); zero O ] ++ p_pars p
    ++ (if 0 <? length (p_mag p) then spin ++ p_mag p else []) ++ weights.
Proof. exact @routing. Qed.
Print Assumptions C08_routing.

Theorem C08_sum : forall scale bg rs,
  combine ROps true scale bg rs = (scale * Rsum rs + bg)%R.
Proof. exact combine_sum. Qed.
Print Assumptions C08_sum.

Theorem C08_product : forall scale bg rs,
  combine ROps false scale bg rs = (scale * Rprod rs + bg)%R.
Proof. exact combine_prod. Qed.
Print Assumptions C08_product.

Theorem C08_order_independent : forall sum scale bg rs rs',
  Permutation rs rs' -> combine ROps sum scale bg rs = combine ROps sum scale bg rs'.
Proof. exact combine_order. Qed.
Print Assumptions C08_order_independent.

(* the accumulator of the unrepaired code (replace the running product
   whenever it is zero) is not the product *)
Theorem C08_old_accumulator_refuted :
  exists rs, combine_prod_old ROps 1%R 0%R rs <> (1 * Rprod rs + 0)%R.
Proof. exact combine_prod_old_refuted. Qed.
Print Assumptions C08_old_accumulator_refuted.
