(* C08/Proofs.v *)
From Coq Require Import List Arith Bool Lia Permutation Reals Lra.
Import ListNotations.
From SM Require Import Base.Num C08.Model.

Section Routing.
  Context {T : Type} (O : Ops T).

  Lemma slice_mid (a b c : list T) :
    slice (a ++ b ++ c) (length a) (length a + length b) = b.
  Proof.
    unfold slice. rewrite skipn_app, skipn_all, Nat.sub_diag. simpl.
    replace (length a + length b - length a) with (length b) by lia.
    rewrite firstn_app, firstn_all, Nat.sub_diag. simpl. apply app_nil_r.
  Qed.

  Lemma slice_mid' (a b c : list T) i j :
    i = length a -> j = length a + length b -> slice (a ++ b ++ c) i j = b.
  Proof. intros -> ->. apply slice_mid. Qed.

  Definition npars_of (ps : list (Part (T:=T))) := map (fun p => length (p_pars p)) ps.
  Definition nmag_of (ps : list (Part (T:=T))) := map (fun p => length (p_mag p)) ps.

  Lemma block_length sum (p : Part (T:=T)) : length (block sum p) = blen sum (length (p_pars p)).
  Proof. unfold block, blen. rewrite app_length. destruct sum; simpl; lia. Qed.

  Lemma par_index_pre sum (pre : list (Part (T:=T))) p post :
    par_index sum (npars_of (pre ++ p :: post)) (length pre) =
    2 + length (concat (map (block sum) pre)).
  Proof.
    induction pre as [|x pre IH]; simpl; auto.
    rewrite IH, app_length, block_length. lia.
  Qed.

  Lemma mag_offset_pre (pre : list (Part (T:=T))) p post :
    mag_offset (nmag_of (pre ++ p :: post)) (length pre) = length (concat (map p_mag pre)).
  Proof.
    induction pre as [|x pre IH]; simpl; auto. rewrite IH, app_length. lia.
  Qed.

  Lemma total_length sum (ps : list (Part (T:=T))) : total sum (npars_of ps) = length (concat (map (block sum) ps)).
  Proof.
    induction ps as [|x ps IH]; simpl; auto. rewrite IH, app_length, block_length. reflexivity.
  Qed.

  Lemma nth_npars (pre : list (Part (T:=T))) p post :
    nth (length pre) (npars_of (pre ++ p :: post)) 0 = length (p_pars p).
  Proof. unfold npars_of. rewrite map_app. simpl. rewrite app_nth2; rewrite map_length; [|lia].
    rewrite Nat.sub_diag. reflexivity. Qed.
  Lemma nth_nmag (pre : list (Part (T:=T))) p post :
    nth (length pre) (nmag_of (pre ++ p :: post)) 0 = length (p_mag p).
  Proof. unfold nmag_of. rewrite map_app. simpl. rewrite app_nth2; rewrite map_length; [|lia].
    rewrite Nat.sub_diag. reflexivity. Qed.

  (* Each part receives exactly its own scale, parameters, the shared spin
     state, its own magnetic triples and the shared weight vector. *)
  Theorem routing sum scale bg (pre : list (Part (T:=T))) p post spin weights nw :
    length spin = 4 -> length weights = 2 * nw ->
    let ps := pre ++ p :: post in
    part_values O sum (npars_of ps) (nmag_of ps)
                (length (head sum scale bg ps spin)) nw
                (values sum scale bg ps spin weights) (length pre)
    = [ (if sum then p_scale p else one O); zero O ] ++ p_pars p
      ++ (if 0 <? length (p_mag p) then spin ++ p_mag p else []) ++ weights.
  Proof.
    intros Hspin Hw ps. unfold part_values. subst ps.
    rewrite par_index_pre, mag_offset_pre, total_length, nth_npars, nth_nmag.
    set (ps := pre ++ p :: post).
    set (A := concat (map (block sum) pre)).
    set (B := concat (map (block sum) post)).
    set (MA := concat (map p_mag pre)).
    set (MB := concat (map p_mag post)).
    assert (Hblocks : concat (map (block sum) ps) = A ++ block sum p ++ B).
    { unfold ps. rewrite map_app, concat_app. reflexivity. }
    assert (Hmags : concat (map p_mag ps) = MA ++ p_mag p ++ MB).
    { unfold ps. rewrite map_app, concat_app. reflexivity. }
    assert (Hv : values sum scale bg ps spin weights =
                 ([scale; bg] ++ A) ++ block sum p ++ (B ++ spin ++ (MA ++ p_mag p ++ MB) ++ weights)).
    { unfold values, head. rewrite Hblocks, Hmags. rewrite <- !app_assoc. reflexivity. }
    f_equal; [|f_equal; [|f_equal]].
    - (* scale *)
      f_equal. destruct sum; auto. rewrite Hv. unfold block.
      rewrite app_nth2; rewrite app_length; simpl length; [|lia].
      replace (2 + length A - (2 + length A)) with 0 by lia. reflexivity.
    - (* parameters *)
        rewrite Hv. unfold block. clear Hv Hblocks.
        destruct sum.
        * replace (([scale; bg] ++ A) ++ ([p_scale p] ++ p_pars p) ++ B ++ spin ++ (MA ++ p_mag p ++ MB) ++ weights)
            with (([scale; bg] ++ A ++ [p_scale p]) ++ p_pars p ++ (B ++ spin ++ (MA ++ p_mag p ++ MB) ++ weights))
            by (rewrite <- !app_assoc; reflexivity).
          apply slice_mid'; rewrite !app_length; simpl length; lia.
        * replace (([scale; bg] ++ A) ++ ([] ++ p_pars p) ++ B ++ spin ++ (MA ++ p_mag p ++ MB) ++ weights)
            with (([scale; bg] ++ A) ++ p_pars p ++ (B ++ spin ++ (MA ++ p_mag p ++ MB) ++ weights))
            by reflexivity.
          apply slice_mid'; rewrite !app_length; simpl length; lia.
    - (* spin and magnetic block *)
          destruct (0 <? length (p_mag p)); auto.
          assert (Hlen : length (A ++ block sum p ++ B) + 2 = length ([scale; bg] ++ A ++ block sum p ++ B))
            by (simpl; lia).
          rewrite <- Hblocks in Hlen. f_equal.
          -- unfold values, head.
             replace (([scale; bg] ++ concat (map (block sum) ps) ++ spin ++ concat (map p_mag ps)) ++ weights)
               with (([scale; bg] ++ concat (map (block sum) ps)) ++ spin ++ (concat (map p_mag ps) ++ weights))
               by (rewrite <- !app_assoc; reflexivity).
             apply slice_mid'; [rewrite Hlen; reflexivity | rewrite Hlen, Hspin; reflexivity].
          -- unfold values, head. rewrite Hmags.
             replace (([scale; bg] ++ concat (map (block sum) ps) ++ spin ++ MA ++ p_mag p ++ MB) ++ weights)
               with (([scale; bg] ++ concat (map (block sum) ps) ++ spin ++ MA) ++ p_mag p ++ (MB ++ weights))
               by (rewrite <- !app_assoc; reflexivity).
             apply slice_mid'.
             ++ rewrite !app_length. simpl length. rewrite Hspin. lia.
             ++ rewrite !app_length. simpl length. rewrite Hspin. lia.
    - (* weights *)
          unfold values.
          rewrite <- (app_nil_r weights) at 1.
          apply slice_mid'; [reflexivity | lia].
  Qed.
End Routing.

Section Combine.
  Open Scope R_scope.

  Fixpoint Rsum (l : list R) : R := match l with [] => 0 | x :: r => x + Rsum r end.
  Fixpoint Rprod (l : list R) : R := match l with [] => 1 | x :: r => x * Rprod r end.

  Lemma fold_add l a : fold_left Rplus l a = a + Rsum l.
  Proof. revert a; induction l as [|x l IH]; intros a; simpl; [ring|]. rewrite IH; ring. Qed.
  Lemma fold_mul l a : fold_left Rmult l a = a * Rprod l.
  Proof. revert a; induction l as [|x l IH]; intros a; simpl; [ring|]. rewrite IH; ring. Qed.

  Theorem combine_sum scale bg rs : combine ROps true scale bg rs = scale * Rsum rs + bg.
  Proof. unfold combine. cbn [add mul zero ROps]. rewrite fold_add. ring. Qed.

  Theorem combine_prod scale bg rs : combine ROps false scale bg rs = scale * Rprod rs + bg.
  Proof. unfold combine. cbn [add mul one ROps]. rewrite fold_mul. ring. Qed.

  Lemma Rsum_perm l l' : Permutation l l' -> Rsum l = Rsum l'.
  Proof. induction 1 as [|x l l' _ IH|x y l|l l' l'' _ IH1 _ IH2]; simpl; [reflexivity|rewrite IH; reflexivity|ring|congruence]. Qed.
  Lemma Rprod_perm l l' : Permutation l l' -> Rprod l = Rprod l'.
  Proof. induction 1 as [|x l l' _ IH|x y l|l l' l'' _ IH1 _ IH2]; simpl; [reflexivity|rewrite IH; reflexivity|ring|congruence]. Qed.

  Theorem combine_order sum scale bg rs rs' :
    Permutation rs rs' -> combine ROps sum scale bg rs = combine ROps sum scale bg rs'.
  Proof.
    intros Hp. destruct sum; [rewrite !combine_sum, (Rsum_perm _ _ Hp) | rewrite !combine_prod, (Rprod_perm _ _ Hp)]; reflexivity.
  Qed.

  (* the accumulator before the repair is not the product: line*power_law at a
     root of the line returns the other factor alone *)
  Lemma combine_prod_old_refuted :
    exists rs, combine_prod_old ROps 1 0 rs <> 1 * Rprod rs + 0.
  Proof.
    exists [0; 2]. unfold combine_prod_old. cbn [fold_left add mul zero eqb ROps Rprod].
    replace (Reqb 0 0) with true by (symmetry; apply Reqb_true; reflexivity).
    replace (Reqb 0 0) with true by (symmetry; apply Reqb_true; reflexivity).
    lra.
  Qed.
End Combine.
