From Coq Require Import String List Bool Lia.
Import ListNotations.
From SM Require Import C16.Model.
Open Scope string_scope.

Section P.
  Variable V : Type.
  Variable interp : string -> list V -> V.
  Notation expr := (expr V).
  Notation eval := (eval V interp).

  Fixpoint allvars {N} (p : N -> bool) (e : expr N) : bool :=
    match e with
    | Num _ _ _ => true
    | Var _ _ x => p x
    | App _ _ _ args => forallb (allvars p) args
    end.

  (* evaluating a renamed expression = evaluating the original in the pulled-back environment,
     as far as the variables that occur are concerned *)
  Lemma eval_agree {N M} (p : N -> bool) (r : N -> M) (env1 : M -> V) (env2 : N -> V) :
    (forall x, p x = true -> env1 (r x) = env2 x) ->
    forall e, allvars p e = true -> eval env1 (rename V r e) = eval env2 e.
  Proof.
    intros Hag. fix IH 1. intros [v|x|f args] H; simpl in *; auto.
    f_equal. induction args as [|a args IHa]; simpl in *; auto.
    apply andb_true_iff in H. destruct H as [Ha Hr]. f_equal; auto.
  Qed.

  Lemma eval_ext {N} (p : N -> bool) (env1 env2 : N -> V) :
    (forall x, p x = true -> env1 x = env2 x) -> forall e, allvars p e = true -> eval env1 e = eval env2 e.
  Proof.
    intros Hag. fix IH 1. intros [v|x|f args] H; simpl in *; auto.
    f_equal. induction args as [|a args IHa]; simpl in *; auto.
    apply andb_true_iff in H. destruct H as [Ha Hr]. f_equal; auto.
  Qed.

  Variables call_pars base_pars : list string.
  Variables rho glob : string -> V.

  Definition env0 (x : string) : V := if memb x call_pars then rho x else glob x.

  (* names an expression may mention when [defined] intermediates are available:
     caller parameters, intermediates defined so far, and names that are never assigned *)
  Definition usable (lhs defined : list string) (x : string) : bool :=
    memb x call_pars || memb x defined || negb (memb x lhs).

  (* well-formed translation: single assignment, no caller parameter is assigned,
     right-hand sides use caller parameters, earlier intermediates and unassigned names only *)
  Fixpoint wf_from (lhs vars defined : list string) (assigns : list (string * expr string)) : bool :=
    match assigns with
    | [] => true
    | (x, e) :: r => negb (memb x call_pars) && negb (memb x (map fst r)) && negb (memb x defined)
                     && allvars (usable lhs defined) e
                     && wf_from lhs vars (if memb x vars then x :: defined else defined) r
    end.
  Definition wf (assigns : list (string * expr string)) : bool :=
    wf_from (map fst assigns) (variables V call_pars base_pars assigns) [] assigns.

  Lemma memb_In x l : memb x l = true <-> In x l.
  Proof.
    unfold memb. rewrite existsb_exists. split.
    - intros [y [Hy E]]. apply String.eqb_eq in E. subst; auto.
    - intros H. exists x. split; auto. apply String.eqb_refl.
  Qed.

  (* invariant between the C environment and the specification environment *)
  Definition Rel (lhs vars defined : list string) (ce : cname -> V) (se : string -> V) : Prop :=
    (forall x, memb x call_pars = true -> ce (CV x) = se x) /\
    (forall x, memb x lhs = false -> memb x call_pars = false -> ce (COther x) = se x) /\
    (forall x, memb x defined = true -> ce (CVar x) = se x).

  Lemma rel_eval lhs vars defined ce se e :
    (forall x, memb x defined = true -> memb x vars = true) ->
    (forall x, memb x vars = true -> memb x defined = false -> memb x lhs = true /\ memb x call_pars = false) ->
    Rel lhs vars defined ce se -> allvars (usable lhs defined) e = true ->
    eval ce (rename V (id_sub call_pars vars) e) = eval se e.
  Proof.
    intros Hdv Hvd [Hc [Ho Hd]] Hall. apply (eval_agree (usable lhs defined)); auto.
    intros x Hx. unfold usable in Hx. unfold id_sub.
    destruct (memb x vars) eqn:Ev.
    - destruct (memb x defined) eqn:Ed; [apply Hd; auto|].
      destruct (Hvd x Ev Ed) as [Hl Hcp]. rewrite Hcp, Hl in Hx. discriminate.
    - destruct (memb x call_pars) eqn:Ec; [apply Hc; auto|].
      destruct (memb x defined) eqn:Ed; [rewrite (Hdv x Ed) in Ev; discriminate|].
      simpl in Hx. apply negb_true_iff in Hx. apply Ho; auto.
  Qed.

  (* ---- the two folds ---- *)
  Variable lhs vars : list string.
  Definition cstep (e : cname -> V) (a : string * expr string) : cname -> V :=
    if memb (fst a) vars then cupd V e (fst a) (eval e (rename V (id_sub call_pars vars) (snd a))) else e.
  Definition sstep (e : string -> V) (a : string * expr string) : string -> V := supd V e (fst a) (eval e (snd a)).

  Hypothesis vars_lhs : forall x, memb x vars = true -> memb x lhs = true /\ memb x call_pars = false.

  Definition Good (defined : list string) : Prop :=
    (forall x, memb x defined = true -> memb x vars = true).

  Lemma string_eqb_sym a b : String.eqb a b = String.eqb b a.
  Proof. destruct (String.eqb_spec a b), (String.eqb_spec b a); congruence. Qed.

  Lemma memb_cons x y l : memb x (y :: l) = String.eqb x y || memb x l.
  Proof. reflexivity. Qed.

  Lemma suffix : forall assigns defined ce se,
    Good defined -> Rel lhs vars defined ce se ->
    wf_from lhs vars defined assigns = true ->
    (forall a, In a assigns -> memb (fst a) lhs = true) ->
    let cef := fold_left cstep assigns ce in
    let sef := fold_left sstep assigns se in
    (forall x, cef (CV x) = ce (CV x)) /\ (forall x, cef (COther x) = ce (COther x)) /\
    (forall x, memb x defined = true -> cef (CVar x) = ce (CVar x)) /\
    (forall y, memb y (map fst assigns) = false -> sef y = se y) /\
    (forall x e, In (x, e) assigns -> memb x vars = false -> sef x = eval cef (rename V (id_sub call_pars vars) e)).
  Proof.
    induction assigns as [|[x e] r IH]; intros defined ce se Hg HR Hwf Hlhs cef sef.
    - simpl in *. repeat split; auto. intros x e [].
    - cbn [wf_from] in Hwf. apply andb_true_iff in Hwf. destruct Hwf as [Hwf Hrest].
      apply andb_true_iff in Hwf. destruct Hwf as [Hwf Hall].
      apply andb_true_iff in Hwf. destruct Hwf as [Hwf Hnd].
      apply andb_true_iff in Hwf. destruct Hwf as [Hncp Hnr].
      apply negb_true_iff in Hncp, Hnr, Hnd.
      set (ce1 := cstep ce (x, e)). set (se1 := sstep se (x, e)).
      set (defined1 := if memb x vars then x :: defined else defined) in *.
      assert (Hev : eval ce (rename V (id_sub call_pars vars) e) = eval se e).
      { apply (rel_eval lhs vars defined); auto. }
      assert (Hg1 : Good defined1).
      { unfold Good, defined1. destruct (memb x vars) eqn:Ev; auto.
        intros y Hy. rewrite memb_cons in Hy. apply orb_true_iff in Hy. destruct Hy as [Hy|Hy]; auto.
        apply String.eqb_eq in Hy. subst. auto. }
      assert (HR1 : Rel lhs vars defined1 ce1 se1).
      { destruct HR as [Hc [Ho Hd]]. unfold ce1, se1, cstep, sstep, Rel. cbn [fst snd].
        assert (Hxl : memb x lhs = true) by (apply (Hlhs (x, e)); left; auto).
        repeat split.
        - intros y Hy. unfold supd. destruct (String.eqb_spec y x); [subst; congruence|].
          destruct (memb x vars); simpl; auto.
        - intros y Hl Hcp. unfold supd. destruct (String.eqb_spec y x); [subst; congruence|].
          destruct (memb x vars); simpl; auto.
        - intros y Hy. unfold defined1 in Hy. unfold supd. destruct (memb x vars) eqn:Ev.
          + rewrite memb_cons in Hy. unfold cupd. rewrite (string_eqb_sym y x) in Hy.
            destruct (String.eqb_spec x y) as [->|Hne].
            * rewrite String.eqb_refl. rewrite Hev. reflexivity.
            * simpl in Hy. try rewrite (proj2 (String.eqb_neq y x)) by congruence. auto.
          + destruct (String.eqb_spec y x) as [->|Hne]; [rewrite (Hg x Hy) in Ev; discriminate|]. auto. }
      assert (Hlhs1 : forall a, In a r -> memb (fst a) lhs = true) by (intros a Ha; apply Hlhs; right; auto).
      specialize (IH defined1 ce1 se1 Hg1 HR1 Hrest Hlhs1).
      destruct IH as [I1 [I2 [I3 [I4 I5]]]].
      change cef with (fold_left cstep r ce1). change sef with (fold_left sstep r se1).
      assert (Hce1_cv : forall y, ce1 (CV y) = ce (CV y)) by (intros y; unfold ce1, cstep; cbn [fst snd]; destruct (memb x vars); reflexivity).
      assert (Hce1_co : forall y, ce1 (COther y) = ce (COther y)) by (intros y; unfold ce1, cstep; cbn [fst snd]; destruct (memb x vars); reflexivity).
      assert (Hce1_var : forall y, y <> x -> ce1 (CVar y) = ce (CVar y)).
      { intros y Hy. unfold ce1, cstep. cbn [fst snd]. destruct (memb x vars); auto. unfold cupd.
        rewrite (proj2 (String.eqb_neq y x)); auto. }
      assert (Hdef_sub : forall y, memb y defined = true -> memb y defined1 = true).
      { intros y Hy. unfold defined1. destruct (memb x vars); auto. rewrite memb_cons, Hy. apply orb_true_r. }
      repeat split.
      + intros y. rewrite I1. apply Hce1_cv.
      + intros y. rewrite I2. apply Hce1_co.
      + intros y Hy. rewrite I3 by auto. apply Hce1_var. intros ->. congruence.
      + intros y Hy. cbn [map fst] in Hy. rewrite memb_cons in Hy. apply orb_false_iff in Hy. destruct Hy as [Hyx Hyr].
        rewrite I4 by auto. unfold se1, sstep, supd. cbn [fst]. rewrite Hyx. reflexivity.
      + intros y ey [Heq|Hin] Hv.
        * inversion Heq; subst y ey. rewrite I4 by auto.
          unfold se1, sstep, supd. cbn [fst snd]. rewrite String.eqb_refl.
          rewrite <- Hev. symmetry.
          (* the final C environment agrees with ce on everything e may mention *)
          apply (eval_ext (fun c => match c with CV _ => true | COther _ => true | CVar z => memb z defined end)).
          -- intros [z|z|z] Hz; [rewrite I1; apply Hce1_cv | | rewrite I2; apply Hce1_co].
             rewrite I3 by auto. apply Hce1_var. intros ->. congruence.
          -- clear - Hall vars_lhs Hg. revert Hall. generalize e. fix IHe 1. intros [v|z|f args] H; simpl in *; auto.
             ++ unfold id_sub. destruct (memb z vars) eqn:Ez; [|destruct (memb z call_pars); reflexivity].
                unfold usable in H. destruct (vars_lhs z Ez) as [Hl Hc]. rewrite Hc, Hl in H. simpl in H.
                rewrite orb_false_r in H. exact H.
             ++ induction args as [|a args IHa]; simpl in *; auto.
                apply andb_true_iff in H. destruct H as [Ha Hr]. rewrite (IHe a Ha). simpl. apply IHa. exact Hr.
        * apply I5; auto.
  Qed.
End P.

Section Final.
  Variable V : Type.
  Variable interp : string -> list V -> V.
  Variables call_pars base_pars : list string.
  Variables rho glob : string -> V.
  Notation expr := (expr V).

  Lemma wf_from_nodup lhs vars : forall assigns defined,
    wf_from V call_pars lhs vars defined assigns = true -> NoDup (map fst assigns).
  Proof.
    induction assigns as [|[x e] r IH]; intros defined H; simpl; [constructor|].
    cbn [wf_from] in H. repeat (apply andb_true_iff in H; destruct H as [H ?]).
    constructor; [|eapply IH; eauto].
    apply negb_true_iff in H3. intros Hin. apply (memb_In) in Hin. congruence.
  Qed.

  Lemma lookup_nodup {A} (l : list (string * A)) p e : NoDup (map fst l) -> In (p, e) l -> lookup p l = Some e.
  Proof.
    induction l as [|[k v] l IH]; simpl; intros Hnd Hin; [contradiction|].
    inversion Hnd as [|? ? Hni Hnd']; subst. destruct Hin as [Heq|Hin].
    - inversion Heq; subst. rewrite String.eqb_refl. reflexivity.
    - destruct (String.eqb_spec k p) as [->|Hne]; [|auto].
      exfalso. apply Hni. apply in_map_iff. exists (p, e); auto.
  Qed.

  Lemma nodup_map_filter {A} (f : A -> bool) (l : list (string * A)) (g : string * A -> bool) :
    NoDup (map fst l) -> NoDup (map fst (filter g l)).
  Proof.
    induction l as [|a l IH]; simpl; intros H; [constructor|].
    inversion H as [|? ? Hni Hnd]; subst. destruct (g a); simpl; auto.
    constructor; auto. intros Hin. apply Hni. apply in_map_iff in Hin. destruct Hin as [b [Hb Hin]].
    apply filter_In in Hin. apply in_map_iff. exists b; tauto.
  Qed.

  (* The generated kernel hands the base function, for every replaced base
     parameter, exactly the value the translation equations give it, and for
     every untouched one the caller's value. *)
  Theorem composition assigns p e :
    wf V call_pars base_pars assigns = true -> In (p, e) assigns -> memb p base_pars = true ->
    generated_arg V interp call_pars base_pars assigns rho glob p =
    run_translation V interp assigns (env0 V call_pars rho glob) p.
  Proof.
    intros Hwf Hin Hbase. unfold generated_arg, run_translation.
    set (vars := variables V call_pars base_pars assigns).
    set (lhs := map fst assigns).
    assert (Hvl : forall x, memb x vars = true -> memb x lhs = true /\ memb x call_pars = false).
    { intros x Hx. apply memb_In in Hx. unfold vars, variables in Hx. apply in_map_iff in Hx.
      destruct Hx as [a [<- Ha]]. apply filter_In in Ha. destruct Ha as [Ha Hb].
      apply andb_true_iff in Hb. destruct Hb as [Hb _]. apply negb_true_iff in Hb. split; auto.
      apply memb_In. unfold lhs. apply in_map; auto. }
    assert (Hpv : memb p vars = false).
    { destruct (memb p vars) eqn:E; auto. apply memb_In in E. unfold vars, variables in E. apply in_map_iff in E.
      destruct E as [a [Hp Ha]]. apply filter_In in Ha. destruct Ha as [_ Hb]. apply andb_true_iff in Hb.
      destruct Hb as [_ Hb]. rewrite Hp in Hb. rewrite Hbase in Hb. discriminate. }
    pose proof (suffix V interp call_pars lhs vars Hvl assigns [] (cenv0 V rho glob) (env0 V call_pars rho glob)) as S.
    assert (Hg : Good vars []) by (intros x Hx; discriminate).
    assert (HR : Rel V call_pars lhs vars [] (cenv0 V rho glob) (env0 V call_pars rho glob)).
    { unfold Rel, cenv0, env0. repeat split.
      - intros x Hx. rewrite Hx. reflexivity.
      - intros x _ Hx. rewrite Hx. reflexivity.
      - intros x Hx. discriminate. }
    assert (Hl : forall a, In a assigns -> memb (fst a) lhs = true) by (intros a Ha; apply memb_In; unfold lhs; apply in_map; auto).
    specialize (S Hg HR Hwf Hl). destruct S as [_ [_ [_ [_ S5]]]].
    (* the substitution table holds e for p *)
    assert (Hsubs : subs V call_pars base_pars assigns p = rename V (id_sub call_pars vars) e).
    { unfold subs. fold vars.
      pose proof (wf_from_nodup lhs vars assigns [] Hwf) as Hnd.
      rewrite (lookup_nodup _ p e); auto.
      - rewrite map_rev. apply NoDup_rev. apply (nodup_map_filter (fun _ => true)); auto.
      - apply -> in_rev. apply filter_In. split; auto. }
    rewrite Hsubs. symmetry. apply (S5 p e Hin Hpv).
  Qed.
End Final.

Section More.
  Variable V : Type.
  Variable interp : string -> list V -> V.
  Variables call_pars base_pars : list string.
  Variables rho glob : string -> V.

  Lemma lookup_none {A} (l : list (string * A)) p : ~ In p (map fst l) -> lookup p l = None.
  Proof.
    induction l as [|[k v] l IH]; simpl; intros H; auto.
    destruct (String.eqb_spec k p) as [->|Hne]; [exfalso; apply H; auto|]. apply IH. intros Hin; apply H; auto.
  Qed.

  (* an untouched base parameter receives the caller's value *)
  Theorem untouched assigns p :
    wf V call_pars base_pars assigns = true -> ~ In p (map fst assigns) ->
    generated_arg V interp call_pars base_pars assigns rho glob p = rho p.
  Proof.
    intros Hwf Hni. unfold generated_arg.
    set (vars := variables V call_pars base_pars assigns). set (lhs := map fst assigns).
    assert (Hvl : forall x, memb x vars = true -> memb x lhs = true /\ memb x call_pars = false).
    { intros x Hx. apply memb_In in Hx. unfold vars, variables in Hx. apply in_map_iff in Hx.
      destruct Hx as [a [<- Ha]]. apply filter_In in Ha. destruct Ha as [Ha Hb].
      apply andb_true_iff in Hb. destruct Hb as [Hb _]. apply negb_true_iff in Hb. split; auto.
      apply memb_In. unfold lhs. apply in_map; auto. }
    pose proof (suffix V interp call_pars lhs vars Hvl assigns [] (cenv0 V rho glob) (env0 V call_pars rho glob)) as S.
    assert (Hg : Good vars []) by (intros x Hx; discriminate).
    assert (HR : Rel V call_pars lhs vars [] (cenv0 V rho glob) (env0 V call_pars rho glob)).
    { unfold Rel, cenv0, env0. repeat split.
      - intros x Hx. rewrite Hx. reflexivity.
      - intros x _ Hx. rewrite Hx. reflexivity.
      - intros x Hx. discriminate. }
    assert (Hl : forall a, In a assigns -> memb (fst a) lhs = true) by (intros a Ha; apply memb_In; unfold lhs; apply in_map; auto).
    specialize (S Hg HR Hwf Hl). destruct S as [S1 _].
    unfold subs. rewrite lookup_none.
    - simpl. unfold translation_vars. fold vars. change (fold_left _ assigns (cenv0 V rho glob)) with (fold_left (cstep V interp call_pars vars) assigns (cenv0 V rho glob)).
      rewrite S1. reflexivity.
    - intros Hin. apply Hni. rewrite map_rev in Hin. apply in_rev in Hin. apply in_map_iff in Hin.
      destruct Hin as [a [Ha Hin]]. apply filter_In in Hin. apply in_map_iff. exists a; tauto.
  Qed.
End More.

(* ---- validity region: VALID of the reparameterised model = the base model's validity expression
        evaluated at the translated parameters ---- *)
Section Valid.
  Variable V : Type.
  Variable interp : string -> list V -> V.
  Variables call_pars base_pars : list string.
  Variables rho glob : string -> V.

  Lemma tv_other assigns x : wf V call_pars base_pars assigns = true ->
    translation_vars V interp call_pars base_pars assigns rho glob (COther x) = glob x.
  Proof.
    intros Hwf.
    set (vars := variables V call_pars base_pars assigns). set (lhs := map fst assigns).
    assert (Hvl : forall x, memb x vars = true -> memb x lhs = true /\ memb x call_pars = false).
    { intros y Hy. apply memb_In in Hy. unfold vars, variables in Hy. apply in_map_iff in Hy.
      destruct Hy as [a [<- Ha]]. apply filter_In in Ha. destruct Ha as [Ha Hb].
      apply andb_true_iff in Hb. destruct Hb as [Hb _]. apply negb_true_iff in Hb. split; auto.
      apply memb_In. unfold lhs. apply in_map; auto. }
    pose proof (suffix V interp call_pars lhs vars Hvl assigns [] (cenv0 V rho glob) (env0 V call_pars rho glob)) as S.
    assert (Hg : Good vars []) by (intros y Hy; discriminate).
    assert (HR : Rel V call_pars lhs vars [] (cenv0 V rho glob) (env0 V call_pars rho glob)).
    { unfold Rel, cenv0, env0. repeat split.
      - intros y Hy. rewrite Hy. reflexivity.
      - intros y _ Hy. rewrite Hy. reflexivity.
      - intros y Hy. discriminate. }
    assert (Hl : forall a, In a assigns -> memb (fst a) lhs = true) by (intros a Ha; apply memb_In; unfold lhs; apply in_map; auto).
    specialize (S Hg HR Hwf Hl). destruct S as [_ [S2 _]].
    unfold translation_vars. fold vars.
    change (fold_left _ assigns (cenv0 V rho glob)) with (fold_left (cstep V interp call_pars vars) assigns (cenv0 V rho glob)).
    rewrite S2. reflexivity.
  Qed.

  (* the base parameters as the base model sees them *)
  Definition base_env (assigns : list (string * expr V string)) (x : string) : V :=
    if memb x base_pars then
      (if memb x (map fst assigns) then run_translation V interp assigns (env0 V call_pars rho glob) x else rho x)
    else glob x.

  Theorem valid_composition assigns (valid : expr V string) :
    wf V call_pars base_pars assigns = true ->
    generated_valid V interp call_pars base_pars assigns rho glob valid = eval V interp (base_env assigns) valid.
  Proof.
    intros Hwf. unfold generated_valid. revert valid. fix IH 1. intros [v|x|f args]; cbn [esubst eval].
    - reflexivity.
    - unfold valid_subs, base_env. destruct (memb x base_pars) eqn:Eb.
      + destruct (memb x (map fst assigns)) eqn:El.
        * apply memb_In in El. apply in_map_iff in El. destruct El as [[x' e] [Hx Hin]]. cbn [fst] in Hx. subst x'.
          apply (composition V interp call_pars base_pars rho glob assigns x e); auto.
        * apply (untouched V interp call_pars base_pars rho glob assigns x); auto.
          intros Hin. apply memb_In in Hin. congruence.
      + cbn [eval]. apply tv_other; auto.
    - f_equal. induction args as [|a args IHa]; cbn [map]; [reflexivity|]. f_equal; auto.
  Qed.
End Valid.

(* ---- derived parameter table: untouched parameters keep their order ---- *)
Section TableFacts.
  Open Scope list_scope.
  Variable P : Type.
  Variable pid : P -> string.
  Definition kept (remove : list string) (p : P) : bool := negb (existsb (String.eqb (pid p)) remove).

  Lemma simple_insert_nil pars remove : simple_insert P pid pars [] remove = filter (kept remove) pars.
  Proof.
    induction pars as [|p r IH]; simpl; auto. unfold kept at 1.
    destruct (existsb (String.eqb (pid p)) remove); simpl; rewrite IH; reflexivity.
  Qed.

  (* the new parameters replace the first removed one as a block; every other
     base parameter stays, in the original order *)
  Theorem simple_insert_shape pars ins remove :
    exists a b, pars = a ++ b /\ Forall (fun p => kept remove p = true) a /\
                simple_insert P pid pars ins remove = a ++ (match b with [] => [] | _ => ins end) ++ filter (kept remove) b /\
                (match b with [] => True | p :: _ => kept remove p = false end).
  Proof.
    induction pars as [|p r IH]; simpl.
    - exists [], []. repeat split; auto.
    - destruct (existsb (String.eqb (pid p)) remove) eqn:E.
      + assert (Hk : kept remove p = false) by (unfold kept; rewrite E; reflexivity).
        exists [], (p :: r). simpl. rewrite Hk. repeat split; auto.
        rewrite simple_insert_nil. reflexivity.
      + destruct IH as [a [b [Hab [Ha [Hs Hb]]]]]. exists (p :: a), b. repeat split; auto.
        * simpl. rewrite Hab. reflexivity.
        * constructor; auto. unfold kept. rewrite E. reflexivity.
        * simpl. rewrite Hs. reflexivity.
  Qed.
End TableFacts.
