(* C16/InsertAfter.v — modelinfo._insert_after: the derived table when the caller says where the new parameters go
   ({"old name": "new,new,..."}, "" = at the front).  The three ValueErrors of the Python (a name that is not a new
   parameter, a new parameter used twice, a new parameter never placed) are the [None] results. *)
From Coq Require Import String List Bool Permutation.
Import ListNotations.


Section IA.
  Variable P : Type.
  Variable pid : P -> string.
  Variable remove : list string.
  Variable group : string -> list string.       (* insert_after.get(key).split(",") ; [] when the key is absent *)

  Definition kept (p : P) : bool := negb (existsb (String.eqb (pid p)) remove).

  (* lookup[name], marking it used *)
  Fixpoint extract (n : string) (avail : list P) : option (P * list P) :=
    match avail with
    | [] => None
    | p :: r => if String.eqb (pid p) n then Some (p, r)
                else match extract n r with Some (x, r') => Some (x, p :: r') | None => None end
    end.
  Fixpoint take_group (names : list string) (avail : list P) : option (list P * list P) :=
    match names with
    | [] => Some ([], avail)
    | n :: r => match extract n avail with
                | None => None
                | Some (p, avail') => match take_group r avail' with
                                      | None => None
                                      | Some (t, a) => Some (p :: t, a)
                                      end
                end
    end.
  Fixpoint walk (pars avail : list P) : option (list P * list P) :=
    match pars with
    | [] => Some ([], avail)
    | p :: r => match take_group (group (pid p)) avail with
                | None => None
                | Some (g, avail') => match walk r avail' with
                                      | None => None
                                      | Some (l, a) => Some ((if kept p then [p] else []) ++ g ++ l, a)
                                      end
                end
    end.
  Definition insert_after (pars ins : list P) : option (list P) :=
    match take_group (group ""%string) ins with
    | None => None
    | Some (g0, a0) => match walk pars a0 with
                       | Some (l, []) => Some (g0 ++ l)
                       | _ => None
                       end
    end.

  (* ---- facts ---- *)
  Lemma extract_perm n avail p r : extract n avail = Some (p, r) -> Permutation avail (p :: r).
  Proof.
    revert p r. induction avail as [|a t IH]; simpl; intros p r H; [discriminate|].
    destruct (String.eqb (pid a) n).
    - inversion H; subst. apply Permutation_refl.
    - destruct (extract n t) as [[x r']|] eqn:E; [|discriminate]. inversion H; subst.
      eapply Permutation_trans; [apply perm_skip; apply IH; reflexivity|]. apply perm_swap.
  Qed.
  Lemma take_group_perm names : forall avail g a, take_group names avail = Some (g, a) -> Permutation avail (g ++ a).
  Proof.
    induction names as [|n r IH]; simpl; intros avail g a H.
    - inversion H; subst. apply Permutation_refl.
    - destruct (extract n avail) as [[p avail']|] eqn:E; [|discriminate].
      destruct (take_group r avail') as [[t a']|] eqn:E2; [|discriminate]. inversion H; subst.
      eapply Permutation_trans; [apply (extract_perm _ _ _ _ E)|]. simpl. apply perm_skip. apply IH. exact E2.
  Qed.

  Variable isnew : P -> bool.     (* classifies the parameters of the new table *)

  Lemma walk_shape pars : forall avail l a, walk pars avail = Some (l, a) ->
    Forall (fun p => isnew p = true) avail -> Forall (fun p => isnew p = false) pars ->
    filter (fun p => negb (isnew p)) l = filter kept pars /\
    Permutation avail (filter isnew l ++ a) /\ Forall (fun p => isnew p = true) a.
  Proof.
    induction pars as [|p r IH]; simpl; intros avail l a H Hav Hp.
    - inversion H; subst. simpl. repeat split; auto.
    - destruct (take_group (group (pid p)) avail) as [[g avail']|] eqn:E; [|discriminate].
      destruct (walk r avail') as [[l' a']|] eqn:E2; [|discriminate]. inversion H; subst. clear H.
      inversion Hp as [|? ? Hpn Hr]; subst.
      pose proof (take_group_perm _ _ _ _ E) as Pg.
      assert (Hga : Forall (fun p => isnew p = true) (g ++ avail')).
      { rewrite Forall_forall in *. intros x Hx. apply Hav. eapply Permutation_in; [apply Permutation_sym; exact Pg | exact Hx]. }
      apply Forall_app in Hga. destruct Hga as [Hg Hav'].
      destruct (IH avail' l' a E2 Hav' Hr) as [F1 [F2 F3]].
      assert (Fg1 : filter (fun p => negb (isnew p)) g = []).
      { clear -Hg. induction g as [|x t IHg]; simpl; auto. inversion Hg; subst. rewrite H1. simpl. auto. }
      assert (Fg2 : filter isnew g = g).
      { clear -Hg. induction g as [|x t IHg]; simpl; auto. inversion Hg; subst. rewrite H1. f_equal. auto. }
      repeat split.
      + rewrite !filter_app, Fg1, F1. destruct (kept p); simpl; rewrite ?Hpn; simpl; reflexivity.
      + rewrite !filter_app, Fg2.
        assert (E0 : filter isnew (if kept p then [p] else []) = []) by (destruct (kept p); simpl; rewrite ?Hpn; reflexivity).
        rewrite E0. simpl. rewrite <- app_assoc.
        eapply Permutation_trans; [exact Pg|]. apply Permutation_app_head. exact F2.
      + exact F3.
  Qed.

  (* the headline: when a table is produced, (1) the untouched base parameters are exactly the kept ones, in their
     original order, and (2) every new parameter occurs exactly once (the new part is a permutation of [ins]) *)
  Theorem insert_after_shape pars ins l :
    insert_after pars ins = Some l ->
    Forall (fun p => isnew p = true) ins -> Forall (fun p => isnew p = false) pars ->
    filter (fun p => negb (isnew p)) l = filter kept pars /\ Permutation (filter isnew l) ins.
  Proof.
    unfold insert_after. intros H Hi Hp.
    destruct (take_group (group ""%string) ins) as [[g0 a0]|] eqn:E; [|discriminate].
    destruct (walk pars a0) as [[l' [|x t]]|] eqn:E2; try discriminate. inversion H; subst. clear H.
    pose proof (take_group_perm _ _ _ _ E) as Pg.
    assert (Hga : Forall (fun p => isnew p = true) (g0 ++ a0)).
    { rewrite Forall_forall in *. intros x Hx. apply Hi. eapply Permutation_in; [apply Permutation_sym; exact Pg | exact Hx]. }
    apply Forall_app in Hga. destruct Hga as [Hg Ha].
    destruct (walk_shape pars a0 l' [] E2 Ha Hp) as [F1 [F2 _]].
    assert (Fg1 : filter (fun p => negb (isnew p)) g0 = []).
    { clear -Hg. induction g0 as [|x t IHg]; simpl; auto. inversion Hg; subst. rewrite H1. simpl. auto. }
    assert (Fg2 : filter isnew g0 = g0).
    { clear -Hg. induction g0 as [|x t IHg]; simpl; auto. inversion Hg; subst. rewrite H1. f_equal. auto. }
    split.
    - rewrite filter_app, Fg1, F1. reflexivity.
    - rewrite filter_app, Fg2. rewrite app_nil_r in F2.
      apply Permutation_sym. eapply Permutation_trans; [exact Pg|]. apply Permutation_app_head. exact F2.
  Qed.

  (* a group naming something that is not a (still unused) new parameter is refused *)
  Lemma extract_none n avail : (forall p, In p avail -> pid p <> n) -> extract n avail = None.
  Proof.
    induction avail as [|a t IH]; simpl; intros H; auto.
    destruct (String.eqb (pid a) n) eqn:E.
    - apply String.eqb_eq in E. exfalso. apply (H a); auto.
    - rewrite IH; auto.
  Qed.
  Theorem unknown_name_refused pars ins n rest :
    group ""%string = n :: rest -> (forall p, In p ins -> pid p <> n) -> insert_after pars ins = None.
  Proof. intros Hg Hn. unfold insert_after. rewrite Hg. simpl. rewrite extract_none; auto. Qed.
End IA.
