(* C16/Exec.v — binary64 evaluation of generated_arg for the probe cases *)
From Coq Require Import String List Bool PrimFloat.
Import ListNotations.
From SM Require Import Base.Num C16.Model.
Open Scope string_scope.

Definition interpf (f : string) (a : list float) : float :=
  let x := nth 0 a nan in let y := nth 1 a nan in
  if String.eqb f "+" then PrimFloat.add x y else
  if String.eqb f "-" then PrimFloat.sub x y else
  if String.eqb f "*" then PrimFloat.mul x y else
  if String.eqb f "/" then PrimFloat.div x y else
  if String.eqb f "neg" then PrimFloat.opp x else
  if String.eqb f "sqrt" then PrimFloat.sqrt x else
  if String.eqb f "fabs" then PrimFloat.abs x else
  if String.eqb f "?:" then (if PrimFloat.ltb 0%float x then y else nth 2 a nan) else nan.

Definition envl (l : list (string * float)) (x : string) : float :=
  match lookup x l with Some v => v | None => nan end.

Record Case := MkCase {
  t_call : list string; t_base : list string;
  t_assigns : list (string * expr float string);
  t_rho : list (string * float);
  t_expect : list (string * float)     (* base parameter -> value observed through the probe *)
}.
Definition check_case (tol : float) (c : Case) : bool :=
  forallb (fun '(p, v) =>
    let g := generated_arg float interpf (t_call c) (t_base c) (t_assigns c) (envl (t_rho c)) (fun _ => nan) p in
    closeb tol 0x1p-1000%float (PrimFloat.add (PrimFloat.abs v) 1%float) g v) (t_expect c).
Definition check_cases (tol : float) (l : list Case) : list nat := failing (map (check_case tol) l).
