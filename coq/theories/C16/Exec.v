(* C16/Exec.v — binary64 evaluation of generated_arg for the probe cases *)
From Coq Require Import String List Bool PrimFloat.
Import ListNotations.
From SM Require Import Base.Num C16.Model.
Open Scope string_scope.

Definition interpf (f : string) (a : list float) : float :=
  let x := nth 0 a nan in let y := nth 1 a nan in
  if String.eqb f "+" then PrimFloat.add x y else
  if String.eqb f "-" then PrimFloat.sub x y else
  if String.eqb f "*" then PrimFloat.mul x y else
  if String.eqb f "/" then PrimFloat.div x y else
  if String.eqb f "neg" then PrimFloat.opp x else
  if String.eqb f "sqrt" then PrimFloat.sqrt x else
  if String.eqb f "fabs" then PrimFloat.abs x else
  if String.eqb f "?:" then (if PrimFloat.ltb 0%float x then y else nth 2 a nan) else
  if String.eqb f ">" then (if PrimFloat.ltb y x then 1%float else 0%float) else
  if String.eqb f ">=" then (if PrimFloat.leb y x then 1%float else 0%float) else
  if String.eqb f "||" then (if PrimFloat.eqb x 0%float then (if PrimFloat.eqb y 0%float then 0%float else 1%float) else 1%float) else
  if String.eqb f "&&" then (if PrimFloat.eqb x 0%float then 0%float else if PrimFloat.eqb y 0%float then 0%float else 1%float) else nan.

Definition envl (l : list (string * float)) (x : string) : float :=
  match lookup x l with Some v => v | None => nan end.

Record Case := MkCase {
  t_call : list string; t_base : list string;
  t_assigns : list (string * expr float string);
  t_rho : list (string * float);
  t_expect : list (string * float);    (* base parameter -> value observed through the probe *)
  t_valid : expr float string;         (* the base model's validity expression *)
  t_valid_obs : bool                   (* did the kernel evaluate the point (true) or skip it as invalid (false) *)
}.
Definition model_valid (c : Case) : bool :=
  negb (PrimFloat.eqb (generated_valid float interpf (t_call c) (t_base c) (t_assigns c) (envl (t_rho c)) (fun _ => nan) (t_valid c)) 0%float).
Definition check_case (tol : float) (c : Case) : bool :=
  Bool.eqb (model_valid c) (t_valid_obs c) && negb (t_valid_obs c) ||
  Bool.eqb (model_valid c) (t_valid_obs c) &&
  forallb (fun '(p, v) =>
    let g := generated_arg float interpf (t_call c) (t_base c) (t_assigns c) (envl (t_rho c)) (fun _ => nan) p in
    closeb tol 0x1p-1000%float (PrimFloat.add (PrimFloat.abs v) 1%float) g v) (t_expect c).
Definition check_cases (tol : float) (l : list Case) : list nat := failing (map (check_case tol) l).

(* ---- modelinfo._insert_after on parameter names ---- *)
From SM Require Import C16.InsertAfter.
Definition IACase := (list string * list string * list string * list (string * list string) * option (list string))%type.
Fixpoint glookup (k : string) (g : list (string * list string)) : list string :=
  match g with [] => [] | (k', v) :: r => if String.eqb k' k then v else glookup k r end.
Fixpoint strs_eqb (a b : list string) : bool :=
  match a, b with [], [] => true | x :: a', y :: b' => String.eqb x y && strs_eqb a' b' | _, _ => false end.
Definition check_ia (c : IACase) : bool :=
  let '(pars, ins, remove, groups, expect) := c in
  match insert_after string (fun s => s) remove (fun k => glookup k groups) pars ins, expect with
  | Some l, Some e => strs_eqb l e
  | None, None => true
  | _, _ => false
  end.
Definition check_ias (l : list IACase) : list nat := failing (map check_ia l).
