(* C16/Property.v — the property theorems and nothing else. *)
From Coq Require Import String List Bool.
Import ListNotations.
From SM Require Import C16.Model C16.Proofs C16.InsertAfter.
Open Scope string_scope.

(* For every value type, every interpretation of the operators and functions,
   every caller environment and every well-formed translation (single
   assignment, no caller parameter assigned, right-hand sides using caller
   parameters, earlier intermediates and unassigned names): the argument the
   generated kernel passes to the base function for a replaced base parameter
   is the value the translation equations give it ... *)
Theorem C16_composition :
  forall (V : Type) (interp : string -> list V -> V) call_pars base_pars (rho glob : string -> V) assigns p e,
  wf V call_pars base_pars assigns = true -> In (p, e) assigns -> memb p base_pars = true ->
  generated_arg V interp call_pars base_pars assigns rho glob p =
  run_translation V interp assigns (env0 V call_pars rho glob) p.
Proof. exact composition. Qed.
Print Assumptions C16_composition.

(* ... and an untouched base parameter receives the caller's value *)
Theorem C16_untouched :
  forall (V : Type) (interp : string -> list V -> V) call_pars base_pars (rho glob : string -> V) assigns p,
  wf V call_pars base_pars assigns = true -> ~ In p (map fst assigns) ->
  generated_arg V interp call_pars base_pars assigns rho glob p = rho p.
Proof. exact untouched. Qed.
Print Assumptions C16_untouched.

(* the validity region of the reparameterised model is the base model's region expressed in the new
   parameters: VALID, as generated, evaluates the base model's validity expression on the base parameters
   the translation produces (replaced ones) or the caller supplies (untouched ones) *)
Theorem C16_valid :
  forall (V : Type) (interp : string -> list V -> V) call_pars base_pars (rho glob : string -> V) assigns valid,
  wf V call_pars base_pars assigns = true ->
  generated_valid V interp call_pars base_pars assigns rho glob valid =
  eval V interp (base_env V interp call_pars base_pars rho glob assigns) valid.
Proof. exact valid_composition. Qed.
Print Assumptions C16_valid.

(* derived table: the new parameters replace the first removed base parameter as a
   block; all other base parameters stay, in their original order *)
Theorem C16_table_order :
  forall (P : Type) (pid : P -> string) pars ins remove,
  exists a b, pars = (a ++ b)%list /\ Forall (fun p => kept P pid remove p = true) a /\
              simple_insert P pid pars ins remove = (a ++ (match b with [] => [] | _ => ins end) ++ filter (kept P pid remove) b)%list /\
              (match b with [] => True | p :: _ => kept P pid remove p = false end).
Proof. exact simple_insert_shape. Qed.
Print Assumptions C16_table_order.

(* derived table with caller-chosen positions (insert_after): whenever a table is produced, the untouched base
   parameters are exactly the kept ones in their original order and every new parameter occurs exactly once; a
   group naming something that is not a new parameter is refused (None = the ValueError of the implementation) *)
Theorem C16_insert_after_order :
  forall (P : Type) (pid : P -> string) remove group (isnew : P -> bool) pars ins l,
  insert_after P pid remove group pars ins = Some l ->
  Forall (fun p => isnew p = true) ins -> Forall (fun p => isnew p = false) pars ->
  filter (fun p => negb (isnew p)) l = filter (InsertAfter.kept P pid remove) pars /\ Permutation.Permutation (filter isnew l) ins.
Proof. intros P pid remove group isnew. apply insert_after_shape. Qed.
Print Assumptions C16_insert_after_order.

Theorem C16_insert_after_unknown_refused :
  forall (P : Type) (pid : P -> string) remove group pars ins n rest,
  group ""%string = (n :: rest)%list -> (forall p, In p ins -> pid p <> n) -> insert_after P pid remove group pars ins = None.
Proof. intros P pid remove group. apply unknown_name_refused. Qed.
Print Assumptions C16_insert_after_unknown_refused.
