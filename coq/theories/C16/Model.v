(* C16/Model.v — reparameterisation (core.reparameterize, generate._build_translation,
   modelinfo.derive_table).  Expressions are trees over uninterpreted operators
   and functions; C identifiers produced by the generator are kept apart by
   constructors instead of textual prefixes ("_v.x", "_var_y"). *)
From Coq Require Import String List Bool.
Import ListNotations.
Open Scope string_scope.

Section Expr.
  Variable V : Type.
  Variable interp : string -> list V -> V.      (* + - * / ?: calls ... *)

  Inductive expr (N : Type) := Num (v : V) | Var (x : N) | App (f : string) (args : list (expr N)).
  Arguments Num {N}. Arguments Var {N}. Arguments App {N}.

  Fixpoint eval {N} (env : N -> V) (e : expr N) : V :=
    match e with
    | Num v => v
    | Var x => env x
    | App f args => interp f (map (eval env) args)
    end.

  Fixpoint rename {N M} (r : N -> M) (e : expr N) : expr M :=
    match e with
    | Num v => Num v
    | Var x => Var (r x)
    | App f args => App f (map (rename r) args)
    end.

  (* names in generated C *)
  Inductive cname := CV (x : string)      (* _v.x : value from the caller's table *)
                   | CVar (x : string)    (* _var_x : intermediate *)
                   | COther (x : string). (* anything else: constants, globals *)

  Definition memb (x : string) (l : list string) : bool := existsb (String.eqb x) l.

  (* generate._build_translation: classification and identifier substitution *)
  Definition variables (call_pars base_pars : list string) (assigns : list (string * expr string)) : list string :=
    map fst (filter (fun a => negb (memb (fst a) call_pars) && negb (memb (fst a) base_pars)) assigns).
  Definition id_sub (call_pars vars : list string) (x : string) : cname :=
    if memb x vars then CVar x else if memb x call_pars then CV x else COther x.

  Fixpoint lookup {A} (x : string) (l : list (string * A)) : option A :=
    match l with [] => None | (k, v) :: r => if String.eqb k x then Some v else lookup x r end.

  (* subs: base parameter -> C expression of its argument.  dict.update: the LAST assignment wins *)
  Definition subs (call_pars base_pars : list string) (assigns : list (string * expr string)) (p : string) : expr cname :=
    let vars := variables call_pars base_pars assigns in
    match lookup p (rev (filter (fun a => memb (fst a) base_pars) assigns)) with
    | Some eq => rename (id_sub call_pars vars) eq
    | None => Var (CV p)
    end.

  (* the C environment: caller values under CV, globals under COther, and the
     intermediates defined one after the other by TRANSLATION_VARS *)
  Definition cenv0 (rho glob : string -> V) (c : cname) : V :=
    match c with CV x => rho x | COther x => glob x | CVar _ => glob "" end.
  Definition cupd (e : cname -> V) (x : string) (v : V) (c : cname) : V :=
    match c with CVar y => if String.eqb y x then v else e c | _ => e c end.
  Definition translation_vars (call_pars base_pars : list string) (assigns : list (string * expr string))
             (rho glob : string -> V) : cname -> V :=
    let vars := variables call_pars base_pars assigns in
    fold_left (fun e a => if memb (fst a) vars then cupd e (fst a) (eval e (rename (id_sub call_pars vars) (snd a))) else e)
              assigns (cenv0 rho glob).

  (* what the generated kernel passes to the base function for base parameter p *)
  Definition generated_arg (call_pars base_pars : list string) (assigns : list (string * expr string))
             (rho glob : string -> V) (p : string) : V :=
    eval (translation_vars call_pars base_pars assigns rho glob) (subs call_pars base_pars assigns p).

  (* generate._build_validity_check: in the base model's validity expression every identifier naming a
     base parameter is replaced by the (parenthesised) expression of its argument; other identifiers
     (constants, functions) are left alone.  Trees make the parenthesisation implicit. *)
  Fixpoint esubst {N M} (s : N -> expr M) (e : expr N) : expr M :=
    match e with
    | Num v => Num v
    | Var x => s x
    | App f args => App f (map (esubst s) args)
    end.
  Definition valid_subs (call_pars base_pars : list string) (assigns : list (string * expr string)) (x : string) : expr cname :=
    if memb x base_pars then subs call_pars base_pars assigns x else Var (COther x).
  (* VALID(_v) as evaluated inside the dispersity loop, after TRANSLATION_VARS(_v) *)
  Definition generated_valid (call_pars base_pars : list string) (assigns : list (string * expr string))
             (rho glob : string -> V) (valid : expr string) : V :=
    eval (translation_vars call_pars base_pars assigns rho glob) (esubst (valid_subs call_pars base_pars assigns) valid).

  (* ---- the specification: run the translation equations in order ---- *)
  Definition supd (e : string -> V) (x : string) (v : V) (y : string) : V := if String.eqb y x then v else e y.
  Definition run_translation (assigns : list (string * expr string)) (env : string -> V) : string -> V :=
    fold_left (fun e a => supd e (fst a) (eval e (snd a))) assigns env.
End Expr.

(* ---- modelinfo._simple_insert ---- *)
Section Table.
  Variable P : Type.
  Variable pid : P -> string.
  Fixpoint simple_insert (pars : list P) (insert : list P) (remove : list string) : list P :=
    match pars with
    | [] => []
    | p :: r => if existsb (String.eqb (pid p)) remove
                then insert ++ simple_insert r [] remove
                else p :: simple_insert r insert remove
    end.
End Table.
