(* C19/Translated.v — the element formulas of sesans.SesansTransform as regenerated from the text of sesans.py
   (Gen/C19_code.v: _set_hankel evaluated symbolically on arrays with named axes, apply as two dot products) are
   the model's: H0_i = dq_i/2pi q_i, H_ij = [accepted] J0(q_i xi_j) dq_i q_i/2pi, P_j = sum_i H_ij I_i - sum_i H0_i I_i.
   Stated for every carrier (reals and binary64 alike): the proofs only use the shape of the expressions. *)
From Coq Require Import List Bool.
Import ListNotations.
From SM Require Import Base.Num C19.Model Gen.C19_code.

Section Tr.
  Context {T : Type} (O : Ops T).
  Variable twopi : T.

  (* When the source could not be translated, Gen/C19_code.v says [translated = false] and holds placeholders: the
     premise is then false and [untranslated] closes the goal; later sentences are written [all: ...] (no-ops then). *)
  Ltac untranslated Ht := try solve [vm_compute in Ht; discriminate Ht].

  Lemma code_H0_is_model dq q : translated = true -> code_H0 O twopi dq q = mul O (div O dq twopi) q.
  Proof. intros Ht. untranslated Ht. all: reflexivity. Qed.

  Lemma code_H_is_model dq q j0v lam zaccept : translated = true ->
    code_H O twopi dq q j0v lam zaccept =
    if accepted O twopi q lam zaccept then mul O j0v (div O (mul O dq q) twopi) else zero O.
  Proof.
    intros Ht. untranslated Ht.
    all: unfold code_H, accepted; destruct (leb O _ _); destruct (leb O _ _); reflexivity.
  Qed.

  Lemma map_ext_all {A B} (f g : A -> B) l : (forall x, f x = g x) -> map f l = map g l.
  Proof. intros H. induction l as [|x r IH]; simpl; [reflexivity|]. now rewrite H, IH. Qed.

  Theorem code_P_is_model pts lam zaccept j : translated = true ->
    code_P O twopi pts lam zaccept j = P O twopi pts lam zaccept j.
  Proof.
    intros Ht. untranslated Ht.
    all: unfold code_P, P, G, G0, C19.Model.sumL; f_equal; f_equal.
    all: apply map_ext_all; intros p; unfold accepted.
    all: destruct (leb O _ _); destruct (leb O _ _); reflexivity.
  Qed.
End Tr.
