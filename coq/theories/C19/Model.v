(* C19/Model.v — sesans.SesansTransform: q grid, dq weights, acceptance mask,
   G(xi) - G(0).  exp/log (grid) and J0 are leaves. *)
From Coq Require Import List Bool Arith.
Import ListNotations.
From SM Require Import Base.Num.

Section Model.
  Context {T : Type} (O : Ops T).
  Variable twopi : T.
  Notation "x + y" := (add O x y).
  Notation "x * y" := (mul O x y).
  Notation "x - y" := (sub O x y).
  Notation "x / y" := (div O x y).

  (* one calculated q point: previous grid value (for dq), q itself, I(q), and J0(q xi_j) for the spin-echo lengths *)
  Record Pt := MkPt { p_dq : T; p_q : T; p_I : T; p_j0 : list T }.

  (* dq = diff(q) with dq[0] = dq[1] *)
  Fixpoint dqs_from (prev : T) (q : list T) : list T :=
    match q with [] => [] | x :: r => (x - prev) :: dqs_from x r end.
  Definition dqs (q : list T) : list T :=
    match q with
    | a :: b :: r => (b - a) :: (b - a) :: dqs_from b r
    | _ => []
    end.

  (* acceptance: q lam/2pi <= 1 and q <= zaccept *)
  Definition accepted (q lam zaccept : T) : bool := leb O (q * (lam / twopi)) (one O) && leb O q zaccept.

  (* P_j = sum_i [m_ij J0(q_i xi_j) - 1] I_i q_i dq_i / 2pi, as the code computes it:
     G_j = sum_i H_ij I_i  with  H_ij = m_ij J0 * (dq_i q_i / 2pi),  G0 = sum_i (dq_i/2pi * q_i) I_i,  P = G - G0 *)
  Definition sumL (l : list T) : T := fold_left (add O) l (zero O).
  Definition G (pts : list Pt) (lam zaccept : T) (j : nat) : T :=
    sumL (map (fun p => (if accepted (p_q p) lam zaccept then nth j (p_j0 p) (zero O) * (p_dq p * p_q p / twopi) else zero O) * p_I p) pts).
  Definition G0 (pts : list Pt) : T := sumL (map (fun p => (p_dq p / twopi * p_q p) * p_I p) pts).
  Definition P (pts : list Pt) (lam zaccept : T) (j : nat) : T := G pts lam zaccept j - G0 pts.

  (* direct_model._make_sesans_transform: the acceptance angle theta_max of the data object becomes a q value,
     zaccept = 2 pi / max(wavelength) * sin(theta_max) - one cut for the whole set, that of the longest wavelength *)
  Definition maxL (l : list T) : T := fold_left (fun a x => if ltb O a x then x else a) (tl l) (hd (zero O) l).
  Definition make_zaccept (lams : list T) (sin_theta : T) : T := twopi / maxL lams * sin_theta.
  (* the value for spin-echo length j of a data set with per-point wavelengths *)
  Definition P_data (pts : list Pt) (lams : list T) (sin_theta : T) (j : nat) : T :=
    P pts (nth j lams (zero O)) (make_zaccept lams sin_theta) j.
End Model.
