From Coq Require Import List PrimFloat Bool.
Import ListNotations.
From SM Require Import Base.Num C19.Model.

Definition twopif : float := 0x1.921fb54442d18p+2%float.

Record Case := MkCase {
  s_pts : list (float * float * float * list float);   (* dq, q, I, J0(q xi_j) *)
  s_lam : float; s_zaccept : float;
  s_scale : list float;                                (* sum of |terms| per xi, for the tolerance *)
  s_expect : list float
}.
Definition check_case (rel : float) (c : Case) : bool :=
  let pts := map (fun '(dq, q, i, j) => MkPt dq q i j) (s_pts c) in
  let m := map (fun j => P FOps twopif pts (s_lam c) (s_zaccept c) j) (seq 0 (length (s_expect c))) in
  all_close rel 0x1p-1000%float (s_scale c) m (s_expect c).
Definition check_cases (rel : float) (l : list Case) : list nat := failing (map (check_case rel) l).

(* data-object construction: per-point wavelengths and sin(theta_max); zaccept is computed by the model *)
Record CaseD := MkCaseD {
  d_pts : list (float * float * float * list float);
  d_lams : list float; d_sin : float;
  d_scale : list float;
  d_expect : list float
}.
Definition check_caseD (rel : float) (c : CaseD) : bool :=
  let pts := map (fun '(dq, q, i, j) => MkPt dq q i j) (d_pts c) in
  let m := map (fun j => P_data FOps twopif pts (d_lams c) (d_sin c) j) (seq 0 (length (d_expect c))) in
  all_close rel 0x1p-1000%float (d_scale c) m (d_expect c).
Definition check_casesD (rel : float) (l : list CaseD) : list nat := failing (map (check_caseD rel) l).
