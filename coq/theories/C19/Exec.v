From Coq Require Import List PrimFloat Bool.
Import ListNotations.
From SM Require Import Base.Num C19.Model.

Definition twopif : float := 0x1.921fb54442d18p+2%float.

Record Case := MkCase {
  s_pts : list (float * float * float * list float);   (* dq, q, I, J0(q xi_j) *)
  s_lam : float; s_zaccept : float;
  s_scale : list float;                                (* sum of |terms| per xi, for the tolerance *)
  s_expect : list float
}.
Definition check_case (rel : float) (c : Case) : bool :=
  let pts := map (fun '(dq, q, i, j) => MkPt dq q i j) (s_pts c) in
  let m := map (fun j => P FOps twopif pts (s_lam c) (s_zaccept c) j) (seq 0 (length (s_expect c))) in
  all_close rel 0x1p-1000%float (s_scale c) m (s_expect c).
Definition check_cases (rel : float) (l : list Case) : list nat := failing (map (check_case rel) l).
