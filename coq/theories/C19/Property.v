(* C19/Property.v — the property theorems and nothing else. *)
From Coq Require Import List Reals.
Import ListNotations.
From SM Require Import Base.Num C19.Model C19.Proofs.
Open Scope R_scope.

(* the returned value is (1/2pi) sum_i [m_i J0(q_i xi_j) - 1] I_i q_i dq_i with m the acceptance mask *)
Theorem C19_value : forall twopi (pts : list (Pt (T:=R))) lam zaccept j, twopi <> 0 ->
  P ROps twopi pts lam zaccept j =
  / twopi * Rsum (map (fun p => ((if accepted ROps twopi (p_q p) lam zaccept then nth j (p_j0 p) 0 else 0) - 1) * p_I p * p_q p * p_dq p) pts).
Proof. exact P_value. Qed.
Print Assumptions C19_value.

(* linear in I(q) *)
Theorem C19_linear_scale : forall twopi (pts : list (Pt (T:=R))) lam zaccept j a, twopi <> 0 ->
  P ROps twopi (map (scaleI a) pts) lam zaccept j = a * P ROps twopi pts lam zaccept j.
Proof. exact P_scale. Qed.
Print Assumptions C19_linear_scale.
Theorem C19_linear_add : forall twopi (pts1 pts2 : list (Pt (T:=R))) lam zaccept j, twopi <> 0 ->
  Forall2 (fun p1 p2 => p_dq p1 = p_dq p2 /\ p_q p1 = p_q p2 /\ p_j0 p1 = p_j0 p2) pts1 pts2 ->
  P ROps twopi (map (fun pp => addI (fst pp) (snd pp)) (combine pts1 pts2)) lam zaccept j =
  P ROps twopi pts1 lam zaccept j + P ROps twopi pts2 lam zaccept j.
Proof. exact P_add. Qed.
Print Assumptions C19_linear_add.

(* the calculated q values exp(a + i d), d > 0, are positive and increasing *)
Theorem C19_grid : forall a d i, 0 < d -> 0 < exp (a + INR i * d) /\ exp (a + INR i * d) < exp (a + INR (S i) * d).
Proof. exact grid_positive_increasing. Qed.
Print Assumptions C19_grid.

(* a data set with several wavelengths: the acceptance theta_max is turned into ONE q cut, that of the longest
   wavelength; every q the transform keeps lies inside the acceptance 2 pi/lam sin(theta_max) of every wavelength
   of the set, and the cut is the acceptance of one of them *)
Theorem C19_acceptance : forall twopi lams s q lamj lam, 0 < twopi -> 0 <= s ->
  Forall (fun x => 0 < x) lams -> In lam lams ->
  accepted ROps twopi q lamj (make_zaccept ROps twopi lams s) = true -> q <= twopi / lam * s.
Proof. exact accepted_inside_every_acceptance. Qed.
Print Assumptions C19_acceptance.
Theorem C19_acceptance_attained : forall twopi lams s, lams <> [] ->
  exists lam, In lam lams /\ make_zaccept ROps twopi lams s = twopi / lam * s.
Proof. exact zaccept_attained. Qed.
Print Assumptions C19_acceptance_attained.

(* the value formula above is that of the CODE: the element formulas regenerated from the current text of
   sasmodels/sesans.py (Gen/C19_code.v; _set_hankel evaluated on symbolic arrays, apply as two dot products)
   are the model's, on the reals and on binary64 alike *)
From SM Require Import Gen.C19_code C19.Translated.
Theorem C19_code_is_model : forall (T : Type) (O : Ops T) twopi pts lam zaccept j, translated = true ->
  code_P O twopi pts lam zaccept j = P O twopi pts lam zaccept j.
Proof. exact @code_P_is_model. Qed.
Print Assumptions C19_code_is_model.
Theorem C19_code_value : forall twopi (pts : list (Pt (T:=R))) lam zaccept j, translated = true -> twopi <> 0 ->
  code_P ROps twopi pts lam zaccept j =
  / twopi * Rsum (map (fun p => ((if accepted ROps twopi (p_q p) lam zaccept then nth j (p_j0 p) 0 else 0) - 1) * p_I p * p_q p * p_dq p) pts).
Proof. intros twopi pts lam zaccept j Ht H. rewrite (code_P_is_model ROps twopi pts lam zaccept j Ht). exact (P_value twopi pts lam zaccept j H). Qed.
Print Assumptions C19_code_value.
