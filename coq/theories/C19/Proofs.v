From Coq Require Import List Bool Arith Reals Lra Lia.
Import ListNotations.
From SM Require Import Base.Num C19.Model.
Open Scope R_scope.

Notation PtR := (Pt (T:=R)).

Fixpoint Rsum (l : list R) : R := match l with [] => 0 | x :: r => x + Rsum r end.
Lemma sumL_Rsum l : sumL ROps l = Rsum l.
Proof.
  unfold sumL. cbn [add zero ROps].
  assert (H : forall l a, fold_left Rplus l a = a + Rsum l).
  { induction l0 as [|x l0 IH]; intros a; simpl; [ring|]. rewrite IH; ring. }
  rewrite H. ring.
Qed.

(* value: (1/2pi) sum_i [m_i J0(q_i xi) - 1] I_i q_i dq_i *)
Theorem P_value twopi (pts : list PtR) lam zaccept j : twopi <> 0 ->
  P ROps twopi pts lam zaccept j =
  / twopi * Rsum (map (fun p => ((if accepted ROps twopi (p_q p) lam zaccept then nth j (p_j0 p) 0 else 0) - 1) * p_I p * p_q p * p_dq p) pts).
Proof.
  intros Ht. unfold P, G, G0. rewrite !sumL_Rsum. cbn [sub mul div zero ROps].
  induction pts as [|p pts IH]; simpl; [ring|].
  replace (Rsum (map (fun p0 => p_dq p0 / twopi * p_q p0 * p_I p0) pts)) with
    (Rsum (map (fun p0 => (if accepted ROps twopi (p_q p0) lam zaccept then nth j (p_j0 p0) 0 * (p_dq p0 * p_q p0 / twopi) else 0) * p_I p0) pts)
     - / twopi * Rsum (map (fun p0 => ((if accepted ROps twopi (p_q p0) lam zaccept then nth j (p_j0 p0) 0 else 0) - 1) * p_I p0 * p_q p0 * p_dq p0) pts))
    by (rewrite <- IH; ring).
  destruct (accepted ROps twopi (p_q p) lam zaccept); field; auto.
Qed.

(* linearity in I(q) *)
Definition scaleI (a : R) (p : PtR) : PtR := MkPt (p_dq p) (p_q p) (a * p_I p) (p_j0 p).
Definition addI (p1 p2 : PtR) : PtR := MkPt (p_dq p1) (p_q p1) (p_I p1 + p_I p2) (p_j0 p1).

Theorem P_scale twopi (pts : list PtR) lam zaccept j a : twopi <> 0 ->
  P ROps twopi (map (scaleI a) pts) lam zaccept j = a * P ROps twopi pts lam zaccept j.
Proof.
  intros Ht. rewrite !P_value by auto. rewrite map_map. cbn [scaleI p_q p_I p_dq p_j0].
  assert (H : forall l, Rsum (map (fun x => ((if accepted ROps twopi (p_q x) lam zaccept then nth j (p_j0 x) 0 else 0) - 1) * (a * p_I x) * p_q x * p_dq x) l) =
              a * Rsum (map (fun p => ((if accepted ROps twopi (p_q p) lam zaccept then nth j (p_j0 p) 0 else 0) - 1) * p_I p * p_q p * p_dq p) l)).
  { induction l as [|x l IH]; simpl; [ring|]. rewrite IH. ring. }
  rewrite H. ring.
Qed.

Theorem P_add twopi (pts1 pts2 : list PtR) lam zaccept j : twopi <> 0 ->
  Forall2 (fun p1 p2 => p_dq p1 = p_dq p2 /\ p_q p1 = p_q p2 /\ p_j0 p1 = p_j0 p2) pts1 pts2 ->
  P ROps twopi (map (fun pp => addI (fst pp) (snd pp)) (combine pts1 pts2)) lam zaccept j =
  P ROps twopi pts1 lam zaccept j + P ROps twopi pts2 lam zaccept j.
Proof.
  intros Ht H. rewrite !P_value by auto.
  rewrite <- Rmult_plus_distr_l. f_equal.
  induction H as [|p1 p2 l1 l2 [Hd [Hq Hj]] _ IH]; simpl; [ring|].
  rewrite IH. rewrite <- Hd, <- Hq, <- Hj. ring.
Qed.

(* the q grid exp(a + i d), d > 0, is positive and strictly increasing *)
Theorem grid_positive_increasing a d i : 0 < d -> 0 < exp (a + INR i * d) /\ exp (a + INR i * d) < exp (a + INR (S i) * d).
Proof.
  intros Hd. split; [apply exp_pos|]. apply exp_increasing. rewrite S_INR. nra.
Qed.

(* ---- acceptance of a data object: the cut is that of the longest wavelength, so every accepted q
        lies inside the acceptance 2 pi / lam_k * sin(theta_max) of EVERY wavelength of the set ---- *)
Lemma maxL_fold_ge (l : list R) : forall a, a <= fold_left (fun a x => if ltb ROps a x then x else a) l a /\
  Forall (fun x => x <= fold_left (fun a x => if ltb ROps a x then x else a) l a) l.
Proof.
  induction l as [|x l IH]; intros a; cbn [fold_left]; [split; [lra|constructor]|].
  destruct (ltb ROps a x) eqn:E; cbn [ltb ROps] in E.
  - apply Rltb_true in E. destruct (IH x) as [H1 H2]. split; [lra|]. constructor; auto.
  - apply Rltb_false in E. destruct (IH a) as [H1 H2]. split; [lra|]. constructor; [lra|auto].
Qed.
Lemma maxL_ge (l : list R) x : In x l -> x <= maxL ROps l.
Proof.
  destruct l as [|a l]; [intros []|]. unfold maxL. cbn [hd tl].
  destruct (maxL_fold_ge l a) as [H1 H2]. intros [<-|Hin]; [exact H1|].
  rewrite Forall_forall in H2. apply H2; auto.
Qed.
Lemma maxL_in (l : list R) : l <> [] -> In (maxL ROps l) l.
Proof.
  destruct l as [|a l]; [congruence|intros _]. unfold maxL. cbn [hd tl].
  revert a. induction l as [|x l IH]; intros a; cbn [fold_left]; [left; reflexivity|].
  destruct (ltb ROps a x).
  - destruct (IH x) as [H|H]; [right; left; exact H|right; right; exact H].
  - destruct (IH a) as [H|H]; [left; exact H|right; right; exact H].
Qed.

Theorem zaccept_most_restrictive twopi lams s lam : 0 < twopi -> 0 <= s ->
  Forall (fun x => 0 < x) lams -> In lam lams ->
  make_zaccept ROps twopi lams s <= twopi / lam * s.
Proof.
  intros Ht Hs Hpos Hin. unfold make_zaccept. cbn [div mul ROps].
  assert (Hl : 0 < lam) by (rewrite Forall_forall in Hpos; auto).
  assert (Hm : lam <= maxL ROps lams) by (apply maxL_ge; auto).
  assert (Hmp : 0 < maxL ROps lams) by lra.
  apply Rmult_le_compat_r; [exact Hs|].
  unfold Rdiv. apply Rmult_le_compat_l; [lra|]. apply Rinv_le_contravar; lra.
Qed.

(* ... and it is attained: it IS the acceptance of one of the wavelengths of the set *)
Theorem zaccept_attained twopi lams s : lams <> [] ->
  exists lam, In lam lams /\ make_zaccept ROps twopi lams s = twopi / lam * s.
Proof. intros H. exists (maxL ROps lams). split; [apply maxL_in; auto|reflexivity]. Qed.

Theorem accepted_inside_every_acceptance twopi lams s q lamj lam : 0 < twopi -> 0 <= s ->
  Forall (fun x => 0 < x) lams -> In lam lams ->
  accepted ROps twopi q lamj (make_zaccept ROps twopi lams s) = true -> q <= twopi / lam * s.
Proof.
  intros Ht Hs Hpos Hin Ha. unfold accepted in Ha. apply andb_prop in Ha. destruct Ha as [_ Ha].
  cbn [leb ROps] in Ha. apply Rleb_true in Ha.
  eapply Rle_trans; [exact Ha|]. apply zaccept_most_restrictive; auto.
Qed.
