(* C04/Property.v — the property theorems and nothing else. *)
From Coq Require Import Reals.
From Coquelicot Require Import Coquelicot.
From Coq Require Import List.
Import ListNotations.
From SM Require Import Base.Num C04.Model C04.Proofs C04.Integral.
Open Scope R_scope.

(* First-order error of a midpoint scheme, in discrete form: cells of mass
   m_j >= 0, scheme node x_j, and y_j the point of the same cell at which the
   exact cell integral equals m_j f(y_j) (mean value theorem; not formalised),
   |x_j - y_j| <= h, f L-Lipschitz:  |scheme - exact| <= L h sum(m_j). *)
Theorem C04_midpoint_O_h : forall (f : R -> R) (L h : R) (cells : list (R * R * R)),
  (forall a b, Rabs (f a - f b) <= L * Rabs (a - b)) -> 0 <= L ->
  Forall (fun c => let '(m, x, y) := c in 0 <= m /\ Rabs (x - y) <= h) cells ->
  Rabs (wsum f (map (fun c => let '(m, x, _) := c in (m, x)) cells) -
        wsum f (map (fun c => let '(m, _, y) := c in (m, y)) cells))
  <= L * h * fold_right (fun c a => let '(m, _, _) := c in m + a) 0 cells.
Proof. exact midpoint_O_h. Qed.
Print Assumptions C04_midpoint_O_h.

(* pinhole: erf((b-q)/(sqrt2 sigma)) - erf((a-q)/(sqrt2 sigma)) is twice the mass
   the unit Gaussian centred on q with standard deviation sigma gives to [a,b] *)
Theorem C04_pinhole_cell_mass : forall (erf : R -> R) q sigma a b, sigma <> 0 ->
  erf ((b - q) / (sqrt 2 * sigma)) - erf ((a - q) / (sqrt 2 * sigma)) =
  2 * (Phi erf ((b - q) / sigma) - Phi erf ((a - q) / sigma)).
Proof. exact pinhole_cell_mass. Qed.
Print Assumptions C04_pinhole_cell_mass.

(* 2-D: the ring weight is the mass of the radial density rho exp(-rho^2/2) on the ring *)
Theorem C04_ring_mass : forall a b : R,
  is_RInt (fun rho => rho * exp (- (rho * rho) / 2)) a b (exp (- (a * a) / 2) - exp (- (b * b) / 2)).
Proof. exact ring_mass. Qed.
Print Assumptions C04_ring_mass.

(* 2-D: every sample of a data point's cloud is  q + (r dq_par cos a) q^ + (r dq_perp sin a) t^  with q^ = q/|q|
   the direction of q (the cosine and sine of atan(qy/qx)) and t^ the tangential direction: the Gaussian is an
   ellipse aligned with the q direction, dq_par its radial and dq_perp its tangential standard deviation
   (qx > 0; for qx < 0 the cloud is the point reflection, C04/Proofs.sample_reflected). *)
Theorem C04_cloud_aligned : forall qx qy dq_par dq_perp r cd sd : R, 0 < qx ->
  let c := cos (atan (qy / qx)) in let s := sin (atan (qy / qx)) in
  sample ROps sqrt qx qy dq_par dq_perp c s r cd sd =
  (qx + (r * dq_par * cd) * c + (r * dq_perp * sd) * (- s),
   qy + (r * dq_par * cd) * s + (r * dq_perp * sd) * c)
  /\ c = qx / sqrt (qx * qx + qy * qy) /\ s = qy / sqrt (qx * qx + qy * qy).
Proof. exact cloud_aligned. Qed.
Print Assumptions C04_cloud_aligned.

(* ---- from the discrete bound to the documented integral (Coquelicot's Riemann integral) ----
   Cells [a_j, b_j] of the calculation grid with nodes x_j, resolution density rho >= 0 (continuous), weights
   m_j = int_cell rho (the "cell masses" of C04_pinhole_cell_mass / C04_ring_mass), intensity f L-Lipschitz, every
   node within h of every point of its cell, cells contiguous from lo to the last edge:
       | sum_j m_j f(x_j)  -  int_lo^hi f rho |  <=  L h int_lo^hi rho ,
   and for the normalised weights m_j / M that the weight matrix holds the error against the renormalised
   integral is at most L h: the scheme converges to the documented integral in proportion to the grid spacing. *)
Theorem C04_scheme_vs_integral : forall (f rho : R -> R) (L h : R),
  (forall u v, Rabs (f u - f v) <= L * Rabs (u - v)) -> 0 <= L -> (forall t, continuous rho t) ->
  forall cells lo, List.Forall (cell_ok rho h) cells -> contiguous lo cells ->
  Rabs (scheme f rho cells - RInt (fun t => f t * rho t) lo (last_edge lo cells)) <= L * h * RInt rho lo (last_edge lo cells).
Proof. exact scheme_vs_integral. Qed.
Print Assumptions C04_scheme_vs_integral.

Theorem C04_normalised_first_order : forall (f rho : R -> R) (L h : R) cells lo,
  (forall u v, Rabs (f u - f v) <= L * Rabs (u - v)) -> 0 <= L -> (forall t, continuous rho t) ->
  List.Forall (cell_ok rho h) cells -> contiguous lo cells ->
  let M := RInt rho lo (last_edge lo cells) in 0 < M ->
  Rabs (scheme f rho cells / M - RInt (fun t => f t * rho t) lo (last_edge lo cells) / M) <= L * h.
Proof. exact normalised_first_order. Qed.
Print Assumptions C04_normalised_first_order.

(* the premises are satisfiable by the pinhole density (a Gaussian of any non-zero width) *)
Theorem C04_pinhole_premises : forall q sigma, sigma <> 0 ->
  (forall t, continuous (gauss q sigma) t) /\
  let cells := [(q - 1, q, q - 1/2); (q, q + 1, q + 1/2)] in
  List.Forall (cell_ok (gauss q sigma) (1/2)) cells /\ contiguous (q - 1) cells.
Proof. intros q sigma Hs. split; [apply gauss_continuous; exact Hs | apply pinhole_cells_ok; exact Hs]. Qed.
Print Assumptions C04_pinhole_premises.
