(* C04/Proofs.v — what the weights ARE (cell masses of the documented measures)
   and the first-order error bound of the midpoint scheme. *)
From Coq Require Import Reals Lra Lia.
From Coquelicot Require Import Coquelicot.
From Coq Require Import List.
Import ListNotations.
Open Scope R_scope.

(* ---- first-order bound, discrete form -------------------------------------
   cells with masses m_j >= 0; the scheme evaluates f at the node x_j, the
   exact cell integral equals m_j f(y_j) for some y_j in the same cell (mean
   value theorem for a continuous f, not formalised); |x_j - y_j| <= h. *)
Fixpoint wsum (f : R -> R) (l : list (R * R)) : R :=     (* sum of m * f(point) *)
  match l with [] => 0 | (m, x) :: r => m * f x + wsum f r end.

Theorem midpoint_O_h (f : R -> R) (L h : R) (cells : list (R * R * R)) :
  (forall a b, Rabs (f a - f b) <= L * Rabs (a - b)) -> 0 <= L ->
  Forall (fun c => let '(m, x, y) := c in 0 <= m /\ Rabs (x - y) <= h) cells ->
  Rabs (wsum f (map (fun c => let '(m, x, _) := c in (m, x)) cells) -
        wsum f (map (fun c => let '(m, _, y) := c in (m, y)) cells))
  <= L * h * fold_right (fun c a => let '(m, _, _) := c in m + a) 0 cells.
Proof.
  intros Hlip HL Hc. induction Hc as [|[[m x] y] cells [Hm Hxy] _ IH]; simpl.
  - rewrite Rminus_0_r, Rabs_R0. lra.
  - replace (m * f x + wsum f (map (fun c => let '(m0, x0, _) := c in (m0, x0)) cells) -
             (m * f y + wsum f (map (fun c => let '(m0, _, y0) := c in (m0, y0)) cells)))
      with (m * (f x - f y) + (wsum f (map (fun c => let '(m0, x0, _) := c in (m0, x0)) cells) -
                               wsum f (map (fun c => let '(m0, _, y0) := c in (m0, y0)) cells))) by ring.
    eapply Rle_trans; [apply Rabs_triang|].
    rewrite Rabs_mult, (Rabs_pos_eq m Hm).
    assert (H1 : m * Rabs (f x - f y) <= m * (L * h)).
    { apply Rmult_le_compat_l; auto. eapply Rle_trans; [apply Hlip|]. apply Rmult_le_compat_l; auto. }
    lra.
Qed.

(* ---- pinhole: the un-normalised weight is the mass the unit Gaussian gives
   to the bin, written with its distribution function Phi(x) = (1+erf(x/sqrt 2))/2.
   [erf] is any function; the identity is pure algebra. *)
Section Pinhole.
  Variable erf : R -> R.
  Definition Phi (x : R) : R := (1 + erf (x / sqrt 2)) / 2.
  Lemma pinhole_cell_mass q sigma a b : sigma <> 0 ->
    erf ((b - q) / (sqrt 2 * sigma)) - erf ((a - q) / (sqrt 2 * sigma)) =
    2 * (Phi ((b - q) / sigma) - Phi ((a - q) / sigma)).
  Proof.
    intros Hs. unfold Phi.
    assert (H2 : sqrt 2 <> 0) by (apply Rgt_not_eq; apply sqrt_lt_R0; lra).
    replace ((b - q) / sigma / sqrt 2) with ((b - q) / (sqrt 2 * sigma)) by (field; auto).
    replace ((a - q) / sigma / sqrt 2) with ((a - q) / (sqrt 2 * sigma)) by (field; auto).
    field.
  Qed.
End Pinhole.

(* ---- 2-D: the ring weight exp(-(r-b/2)^2/2) - exp(-(r+b/2)^2/2) is the mass
   of the radial density rho exp(-rho^2/2) on [r-b/2, r+b/2] *)
Lemma ring_mass (a b : R) :
  is_RInt (fun rho => rho * exp (- (rho * rho) / 2)) a b (exp (- (a * a) / 2) - exp (- (b * b) / 2)).
Proof.
  replace (exp (- (a * a) / 2) - exp (- (b * b) / 2))
    with (minus ((fun rho => - exp (- (rho * rho) / 2)) b) ((fun rho => - exp (- (rho * rho) / 2)) a))
    by (unfold minus, plus, opp; simpl; ring).
  apply (is_RInt_derive (fun rho => - exp (- (rho * rho) / 2)) (fun rho => rho * exp (- (rho * rho) / 2))).
  - intros x _. auto_derive; auto. unfold Rdiv. set (E := exp (- (x * x) * / 2)). field.
  - intros x _. apply (ex_derive_continuous (fun rho => rho * exp (- (rho * rho) / 2))). auto_derive; auto.
Qed.

(* ---- 2-D: the sampling cloud is an ellipse aligned with the q direction ----
   With (c, s) the cosine and sine of atan(qy/qx):  for qx > 0 they are the unit vector q/|q|, and every sample is
        q + (r dq_par cos a) q^ + (r dq_perp sin a) t^ ,   t^ = (-s, c)  the tangential direction,
   so dq_par is the radial and dq_perp the tangential standard deviation.  For qx < 0, atan gives the direction of
   -q and the whole cloud is the point reflection of that one (I(-q) = I(q)). *)
From SM Require Import Base.Num C04.Model.
Lemma sample_aligned (qx qy dq_par dq_perp r cd sd : R) : 0 < qx * qx + qy * qy ->
  let q_r := sqrt (qx * qx + qy * qy) in
  let c := qx / q_r in let s := qy / q_r in
  sample ROps sqrt qx qy dq_par dq_perp c s r cd sd =
  (qx + (r * dq_par * cd) * c + (r * dq_perp * sd) * (- s),
   qy + (r * dq_par * cd) * s + (r * dq_perp * sd) * c).
Proof.
  intros Hq q_r c s. unfold sample. cbn [add sub mul opp ROps]. fold q_r.
  assert (Hr : q_r <> 0) by (apply Rgt_not_eq; apply sqrt_lt_R0; exact Hq).
  unfold c, s. f_equal; field; exact Hr.
Qed.
Lemma sample_reflected (qx qy dq_par dq_perp c s r cd sd : R) :
  sample ROps sqrt (- qx) (- qy) dq_par dq_perp c s r cd sd = sample ROps sqrt qx qy dq_par dq_perp c s r cd sd.
Proof. unfold sample. cbn [add sub mul opp ROps]. replace (- qx * - qx + - qy * - qy) with (qx * qx + qy * qy) by ring. reflexivity. Qed.
(* atan(qy/qx) for qx > 0 is the polar angle of q: its cosine and sine are q/|q| *)
Lemma atan_direction (qx qy : R) : 0 < qx ->
  cos (atan (qy / qx)) = qx / sqrt (qx * qx + qy * qy) /\ sin (atan (qy / qx)) = qy / sqrt (qx * qx + qy * qy).
Proof.
  intros Hx. set (t := qy / qx).
  assert (Hc : 0 < cos (atan t)) by (apply cos_gt_0; destruct (atan_bound t); lra).
  assert (Ht : tan (atan t) = t) by apply atan_right_inv.
  assert (H1 : cos (atan t) * cos (atan t) * (1 + t * t) = 1).
  { assert (Hsin : sin (atan t) = t * cos (atan t)).
    { transitivity (tan (atan t) * cos (atan t)); [unfold tan; field; lra | rewrite Ht; reflexivity]. }
    pose proof (sin2_cos2 (atan t)) as H. unfold Rsqr in H. rewrite Hsin in H.
    replace (cos (atan t) * cos (atan t) * (1 + t * t)) with (t * cos (atan t) * (t * cos (atan t)) + cos (atan t) * cos (atan t)) by ring.
    exact H. }
  assert (Hq : 0 < qx * qx + qy * qy) by nra.
  assert (Hs : sqrt (qx * qx + qy * qy) = qx * sqrt (1 + t * t)).
  { rewrite <- (sqrt_square qx) at 3 by lra. rewrite <- sqrt_mult by nra. f_equal. unfold t. field. lra. }
  assert (Hp : 0 < sqrt (1 + t * t)) by (apply sqrt_lt_R0; nra).
  assert (Hcos : cos (atan t) = / sqrt (1 + t * t)).
  { apply Rmult_eq_reg_r with (sqrt (1 + t * t)); [|lra]. rewrite Rinv_l by lra.
    assert (Hsq : (cos (atan t) * sqrt (1 + t * t)) * (cos (atan t) * sqrt (1 + t * t)) = 1).
    { replace (cos (atan t) * sqrt (1 + t * t) * (cos (atan t) * sqrt (1 + t * t)))
        with (cos (atan t) * cos (atan t) * (sqrt (1 + t * t) * sqrt (1 + t * t))) by ring.
      rewrite sqrt_sqrt by nra. exact H1. }
    assert (Hpos : 0 < cos (atan t) * sqrt (1 + t * t)) by (apply Rmult_lt_0_compat; lra).
    nra. }
  split.
  - rewrite Hcos, Hs. field. split; lra.
  - replace (sin (atan t)) with (tan (atan t) * cos (atan t)) by (unfold tan; field; lra).
    rewrite Ht, Hcos, Hs.
    assert (Htq : t * qx = qy) by (unfold t; field; lra).
    rewrite <- Htq. field. split; lra.
Qed.
Theorem cloud_aligned (qx qy dq_par dq_perp r cd sd : R) : 0 < qx ->
  let c := cos (atan (qy / qx)) in let s := sin (atan (qy / qx)) in
  sample ROps sqrt qx qy dq_par dq_perp c s r cd sd =
  (qx + (r * dq_par * cd) * c + (r * dq_perp * sd) * (- s),
   qy + (r * dq_par * cd) * s + (r * dq_perp * sd) * c)
  /\ c = qx / sqrt (qx * qx + qy * qy) /\ s = qy / sqrt (qx * qx + qy * qy).
Proof.
  intros Hx c s. destruct (atan_direction qx qy Hx) as [Hc Hs]. fold c in Hc. fold s in Hs.
  split; [|split; assumption]. rewrite Hc, Hs. apply sample_aligned. nra.
Qed.
