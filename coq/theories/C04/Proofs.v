(* C04/Proofs.v — what the weights ARE (cell masses of the documented measures)
   and the first-order error bound of the midpoint scheme. *)
From Coq Require Import Reals Lra Lia.
From Coquelicot Require Import Coquelicot.
From Coq Require Import List.
Import ListNotations.
Open Scope R_scope.

(* ---- first-order bound, discrete form -------------------------------------
   cells with masses m_j >= 0; the scheme evaluates f at the node x_j, the
   exact cell integral equals m_j f(y_j) for some y_j in the same cell (mean
   value theorem for a continuous f, not formalised); |x_j - y_j| <= h. *)
Fixpoint wsum (f : R -> R) (l : list (R * R)) : R :=     (* sum of m * f(point) *)
  match l with [] => 0 | (m, x) :: r => m * f x + wsum f r end.

Theorem midpoint_O_h (f : R -> R) (L h : R) (cells : list (R * R * R)) :
  (forall a b, Rabs (f a - f b) <= L * Rabs (a - b)) -> 0 <= L ->
  Forall (fun c => let '(m, x, y) := c in 0 <= m /\ Rabs (x - y) <= h) cells ->
  Rabs (wsum f (map (fun c => let '(m, x, _) := c in (m, x)) cells) -
        wsum f (map (fun c => let '(m, _, y) := c in (m, y)) cells))
  <= L * h * fold_right (fun c a => let '(m, _, _) := c in m + a) 0 cells.
Proof.
  intros Hlip HL Hc. induction Hc as [|[[m x] y] cells [Hm Hxy] _ IH]; simpl.
  - rewrite Rminus_0_r, Rabs_R0. lra.
  - replace (m * f x + wsum f (map (fun c => let '(m0, x0, _) := c in (m0, x0)) cells) -
             (m * f y + wsum f (map (fun c => let '(m0, _, y0) := c in (m0, y0)) cells)))
      with (m * (f x - f y) + (wsum f (map (fun c => let '(m0, x0, _) := c in (m0, x0)) cells) -
                               wsum f (map (fun c => let '(m0, _, y0) := c in (m0, y0)) cells))) by ring.
    eapply Rle_trans; [apply Rabs_triang|].
    rewrite Rabs_mult, (Rabs_pos_eq m Hm).
    assert (H1 : m * Rabs (f x - f y) <= m * (L * h)).
    { apply Rmult_le_compat_l; auto. eapply Rle_trans; [apply Hlip|]. apply Rmult_le_compat_l; auto. }
    lra.
Qed.

(* ---- pinhole: the un-normalised weight is the mass the unit Gaussian gives
   to the bin, written with its distribution function Phi(x) = (1+erf(x/sqrt 2))/2.
   [erf] is any function; the identity is pure algebra. *)
Section Pinhole.
  Variable erf : R -> R.
  Definition Phi (x : R) : R := (1 + erf (x / sqrt 2)) / 2.
  Lemma pinhole_cell_mass q sigma a b : sigma <> 0 ->
    erf ((b - q) / (sqrt 2 * sigma)) - erf ((a - q) / (sqrt 2 * sigma)) =
    2 * (Phi ((b - q) / sigma) - Phi ((a - q) / sigma)).
  Proof.
    intros Hs. unfold Phi.
    assert (H2 : sqrt 2 <> 0) by (apply Rgt_not_eq; apply sqrt_lt_R0; lra).
    replace ((b - q) / sigma / sqrt 2) with ((b - q) / (sqrt 2 * sigma)) by (field; auto).
    replace ((a - q) / sigma / sqrt 2) with ((a - q) / (sqrt 2 * sigma)) by (field; auto).
    field.
  Qed.
End Pinhole.

(* ---- 2-D: the ring weight exp(-(r-b/2)^2/2) - exp(-(r+b/2)^2/2) is the mass
   of the radial density rho exp(-rho^2/2) on [r-b/2, r+b/2] *)
Lemma ring_mass (a b : R) :
  is_RInt (fun rho => rho * exp (- (rho * rho) / 2)) a b (exp (- (a * a) / 2) - exp (- (b * b) / 2)).
Proof.
  replace (exp (- (a * a) / 2) - exp (- (b * b) / 2))
    with (minus ((fun rho => - exp (- (rho * rho) / 2)) b) ((fun rho => - exp (- (rho * rho) / 2)) a))
    by (unfold minus, plus, opp; simpl; ring).
  apply (is_RInt_derive (fun rho => - exp (- (rho * rho) / 2)) (fun rho => rho * exp (- (rho * rho) / 2))).
  - intros x _. auto_derive; auto. unfold Rdiv. set (E := exp (- (x * x) * / 2)). field.
  - intros x _. apply (ex_derive_continuous (fun rho => rho * exp (- (rho * rho) / 2))). auto_derive; auto.
Qed.
