(* C04/Model.v — resolution2d.Pinhole2D._calc_res (polar coordinates): the sampling cloud of one data
   point.  Ring k (of nr) has radius r_k = (k + 1/2) nsigma/nr in units of the widths; direction j (of nphi)
   has angle 2 pi j/nphi.  cos/sin of that angle and of the polar angle atan(qy/qx) of the data point, and the
   two exponentials of the ring weight, are leaves. *)
From Coq Require Import List Bool Arith.
Import ListNotations.
From SM Require Import Base.Num.

Section Cloud.
  Context {T : Type} (O : Ops T).
  Variable sqrtT : T -> T.
  Notation "x + y" := (add O x y).
  Notation "x * y" := (mul O x y).
  Notation "x - y" := (sub O x y).
  Notation "- x" := (opp O x).

  (* one sample: ring radius r (units of sigma), cd = cos(dphi), sd = sin(dphi); (c, s) = cos, sin of atan(qy/qx) *)
  Definition sample (qx qy dq_par dq_perp c s r cd sd : T) : T * T :=
    let q_r := sqrtT (qx * qx + qy * qy) in
    let a := (r * dq_par) * cd + q_r in            (* dqx*cos(dphi) + q_r *)
    let b := (r * dq_perp) * sd in                 (* dqy*sin(dphi) *)
    (* cos(-q_phi) = c, sin(-q_phi) = -s *)
    (a * c + b * (- s), (- a) * (- s) + b * c).

  (* ring weight from the two exponentials exp(-(r-b/2)^2/2), exp(-(r+b/2)^2/2) *)
  Definition ring_weight (e_lo e_hi : T) : T := e_lo - e_hi.
End Cloud.
