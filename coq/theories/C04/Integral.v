(* C04/Integral.v — the step from the discrete midpoint bound to the documented integral.
   A cell [a,b] of the calculation grid carries the mass m = int_a^b rho of the resolution density rho >= 0; the
   scheme replaces int_a^b f rho by m f(x) with x the grid node of the cell.  For an L-Lipschitz intensity f and
   a node within h of every point of its cell,   | m f(x) - int_a^b f rho | <= L h m,   and summing over the
   cells of a grid   | sum_j m_j f(x_j) - sum_j int_cell_j f rho | <= L h sum_j m_j :  first order in the grid
   spacing, with the constant the property names (Lipschitz constant times total mass). *)
From Coq Require Import Reals Lra List.
From Coquelicot Require Import Coquelicot.
Import ListNotations.
Open Scope R_scope.

Lemma lipschitz_continuous (f : R -> R) (L : R) :
  (forall u v, Rabs (f u - f v) <= L * Rabs (u - v)) -> forall t, continuous f t.
Proof.
  intros Hlip t. apply continuity_pt_filterlim.
  intros eps Heps.
  assert (HL : 0 <= L).
  { pose proof (Hlip 1 0) as H. pose proof (Rabs_pos (f 1 - f 0)). replace (1 - 0) with 1 in H by ring. rewrite Rabs_R1 in H. lra. }
  exists (eps / (L + 1)). split.
  - apply Rdiv_lt_0_compat; lra.
  - intros u [_ Hu]. simpl in Hu. unfold R_dist in *. simpl.
    eapply Rle_lt_trans; [apply Hlip|].
    assert (Hpos : 0 < L + 1) by lra.
    apply Rle_lt_trans with ((L + 1) * Rabs (u - t)).
    + apply Rmult_le_compat_r; [apply Rabs_pos | lra].
    + apply Rlt_le_trans with ((L + 1) * (eps / (L + 1))).
      * apply Rmult_lt_compat_l; auto.
      * right. field. lra.
Qed.

Section Cell.
  Variables (f rho : R -> R) (L h : R).
  Hypothesis Hlip : forall u v, Rabs (f u - f v) <= L * Rabs (u - v).
  Hypothesis HL : 0 <= L.
  Hypothesis Crho : forall t, continuous rho t.

  Lemma ex_rho a b : ex_RInt rho a b.
  Proof. apply (ex_RInt_continuous rho). intros z _. apply Crho. Qed.
  Lemma ex_frho a b : ex_RInt (fun t => f t * rho t) a b.
  Proof.
    apply (ex_RInt_continuous (fun t => f t * rho t)). intros z _.
    apply (continuous_mult f rho); [apply (lipschitz_continuous f L Hlip) | apply Crho].
  Qed.

  (* one cell *)
  Lemma cell_bound a b x : a <= b ->
    (forall t, a <= t <= b -> 0 <= rho t) -> (forall t, a <= t <= b -> Rabs (x - t) <= h) ->
    Rabs (RInt rho a b * f x - RInt (fun t => f t * rho t) a b) <= L * h * RInt rho a b.
  Proof.
    intros Hab Hpos Hx.
    pose proof (RInt_correct rho a b (ex_rho a b)) as Ir.
    pose proof (RInt_correct (fun t => f t * rho t) a b (ex_frho a b)) as Ifr.
    assert (Ig : is_RInt (fun t => minus (scal (f x) (rho t)) (f t * rho t)) a b
                         (minus (scal (f x) (RInt rho a b)) (RInt (fun t => f t * rho t) a b))).
    { apply (is_RInt_minus (V := R_NormedModule)); [apply (is_RInt_scal (V := R_NormedModule)); exact Ir | exact Ifr]. }
    assert (Ib : is_RInt (fun t => scal (L * h) (rho t)) a b (scal (L * h) (RInt rho a b))).
    { apply (is_RInt_scal (V := R_NormedModule)). exact Ir. }
    assert (Hbound : forall t, a <= t <= b ->
              norm (minus (scal (f x) (rho t)) (f t * rho t)) <= scal (L * h) (rho t)).
    { intros t Ht.
      unfold norm, minus, plus, opp, scal; simpl. unfold abs, mult; simpl.
      replace (f x * rho t + - (f t * rho t)) with ((f x - f t) * rho t) by ring.
      rewrite Rabs_mult, (Rabs_pos_eq (rho t)) by (apply Hpos; exact Ht).
      apply Rmult_le_compat_r; [apply Hpos; exact Ht|].
      eapply Rle_trans; [apply Hlip|]. apply Rmult_le_compat_l; [exact HL | apply Hx; exact Ht]. }
    pose proof (norm_RInt_le (V := R_NormedModule) _ _ a b _ _ Hab Hbound Ig Ib) as Hn.
    replace (RInt rho a b * f x - RInt (fun t => f t * rho t) a b)
      with (minus (scal (f x) (RInt rho a b)) (RInt (fun t => f t * rho t) a b))
      by (unfold minus, plus, opp, scal; simpl; unfold mult; simpl; ring).
    replace (L * h * RInt rho a b) with (scal (L * h) (RInt rho a b)) by (unfold scal; simpl; unfold mult; simpl; ring).
    exact Hn.
  Qed.

  (* a grid: cells (a, b, node) *)
  Definition cell_ok (c : R * R * R) : Prop :=
    let '(a, b, x) := c in a <= b /\ (forall t, a <= t <= b -> 0 <= rho t) /\ (forall t, a <= t <= b -> Rabs (x - t) <= h).
  Definition scheme (cells : list (R * R * R)) : R :=
    fold_right (fun c acc => let '(a, b, x) := c in RInt rho a b * f x + acc) 0 cells.
  Definition exact (cells : list (R * R * R)) : R :=
    fold_right (fun c acc => let '(a, b, _) := c in RInt (fun t => f t * rho t) a b + acc) 0 cells.
  Definition mass (cells : list (R * R * R)) : R :=
    fold_right (fun c acc => let '(a, b, _) := c in RInt rho a b + acc) 0 cells.

  Theorem scheme_first_order cells : List.Forall cell_ok cells ->
    Rabs (scheme cells - exact cells) <= L * h * mass cells.
  Proof.
    induction 1 as [|[[a b] x] cells [Hab [Hpos Hx]] _ IH]; simpl.
    - rewrite Rminus_0_r, Rabs_R0. lra.
    - replace (RInt rho a b * f x + scheme cells - (RInt (fun t => f t * rho t) a b + exact cells))
        with ((RInt rho a b * f x - RInt (fun t => f t * rho t) a b) + (scheme cells - exact cells)) by ring.
      eapply Rle_trans; [apply Rabs_triang|].
      pose proof (cell_bound a b x Hab Hpos Hx). lra.
  Qed.

  (* contiguous cells: the exact side is the integral over the whole window *)
  Fixpoint contiguous (lo : R) (cells : list (R * R * R)) : Prop :=
    match cells with [] => True | (a, b, _) :: r => a = lo /\ contiguous b r end.
  Fixpoint last_edge (lo : R) (cells : list (R * R * R)) : R :=
    match cells with [] => lo | (_, b, _) :: r => last_edge b r end.
  Lemma exact_is_integral cells : forall lo, contiguous lo cells ->
    exact cells = RInt (fun t => f t * rho t) lo (last_edge lo cells).
  Proof.
    induction cells as [|[[a b] x] r IH]; intros lo Hc; simpl.
    - rewrite RInt_point. reflexivity.
    - destruct Hc as [Ha Hr]. subst a. rewrite (IH b Hr).
      apply (RInt_Chasles (fun t => f t * rho t) lo b (last_edge b r)); apply ex_frho.
  Qed.
  Lemma mass_is_integral cells : forall lo, contiguous lo cells -> mass cells = RInt rho lo (last_edge lo cells).
  Proof.
    induction cells as [|[[a b] x] r IH]; intros lo Hc; simpl.
    - rewrite RInt_point. reflexivity.
    - destruct Hc as [Ha Hr]. subst a. rewrite (IH b Hr).
      apply (RInt_Chasles rho lo b (last_edge b r)); apply ex_rho.
  Qed.

  Theorem scheme_vs_integral cells lo : List.Forall cell_ok cells -> contiguous lo cells ->
    Rabs (scheme cells - RInt (fun t => f t * rho t) lo (last_edge lo cells)) <= L * h * RInt rho lo (last_edge lo cells).
  Proof.
    intros Hok Hc. rewrite <- (exact_is_integral cells lo Hc), <- (mass_is_integral cells lo Hc).
    apply scheme_first_order. exact Hok.
  Qed.
End Cell.

(* normalised weights m_j / M (what the weight matrix holds): the error against the renormalised integral is L h *)
Theorem normalised_first_order (f rho : R -> R) (L h : R) cells lo :
  (forall u v, Rabs (f u - f v) <= L * Rabs (u - v)) -> 0 <= L -> (forall t, continuous rho t) ->
  List.Forall (cell_ok rho h) cells -> contiguous lo cells ->
  let M := RInt rho lo (last_edge lo cells) in 0 < M ->
  Rabs (scheme f rho cells / M - RInt (fun t => f t * rho t) lo (last_edge lo cells) / M) <= L * h.
Proof.
  intros Hlip HL Crho Hok Hc M HM.
  pose proof (scheme_vs_integral f rho L h Hlip HL Crho cells lo Hok Hc) as H. fold M in H.
  replace (scheme f rho cells / M - RInt (fun t => f t * rho t) lo (last_edge lo cells) / M)
    with ((scheme f rho cells - RInt (fun t => f t * rho t) lo (last_edge lo cells)) / M) by (field; lra).
  unfold Rdiv. rewrite Rabs_mult, (Rabs_pos_eq (/ M)) by (left; apply Rinv_0_lt_compat; exact HM).
  apply Rmult_le_reg_r with M; [exact HM|].
  rewrite Rmult_assoc, Rinv_l by lra. lra.
Qed.

(* the hypotheses are met by the pinhole density: the Gaussian of standard deviation sigma centred on q *)
Definition gauss (q sigma t : R) : R := exp (- ((t - q) / sigma) * ((t - q) / sigma) / 2).
Lemma gauss_continuous q sigma : sigma <> 0 -> forall t, continuous (gauss q sigma) t.
Proof.
  intros Hs t. apply (ex_derive_continuous (gauss q sigma)). unfold gauss. auto_derive. exact I.
Qed.
Lemma gauss_pos q sigma t : 0 < gauss q sigma t.
Proof. apply exp_pos. Qed.
Example pinhole_cells_ok q sigma : sigma <> 0 ->
  let cells := [(q - 1, q, q - 1/2); (q, q + 1, q + 1/2)] in
  List.Forall (cell_ok (gauss q sigma) (1/2)) cells /\ contiguous (q - 1) cells.
Proof.
  intros Hs cells. split.
  - assert (Hc : forall a b x, a <= b -> (forall t, a <= t <= b -> Rabs (x - t) <= 1/2) -> cell_ok (gauss q sigma) (1/2) (a, b, x)).
    { intros a b x Hab Hx. unfold cell_ok. split; [exact Hab|]. split; [intros; left; apply gauss_pos | exact Hx]. }
    unfold cells. constructor; [|constructor; [|constructor]]; apply Hc; try lra; intros t Ht; apply Rabs_le; lra.
  - simpl. repeat split; auto.
Qed.
