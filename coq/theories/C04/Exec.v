From Coq Require Import List PrimFloat Bool.
Import ListNotations.
From SM Require Import Base.Num C04.Model.

(* one data point of a Pinhole2D object: every sample of its cloud *)
Record Case := MkCase {
  c_qx : float; c_qy : float; c_par : float; c_perp : float;
  c_c : float; c_s : float;                               (* cos, sin of atan(qy/qx) *)
  c_samples : list (float * float * float * float * float) (* r, cos dphi, sin dphi, qx_calc, qy_calc *)
}.
Definition check_case (tol : float) (c : Case) : bool :=
  forallb (fun '(r, cd, sd, ex, ey) =>
    let '(mx, my) := sample FOps PrimFloat.sqrt (c_qx c) (c_qy c) (c_par c) (c_perp c) (c_c c) (c_s c) r cd sd in
    let sc := PrimFloat.add (PrimFloat.add (PrimFloat.abs (c_qx c)) (PrimFloat.abs (c_qy c)))
                            (PrimFloat.mul r (PrimFloat.add (c_par c) (c_perp c))) in
    closeb tol 0x1p-1000%float sc mx ex && closeb tol 0x1p-1000%float sc my ey) (c_samples c).
Definition check_cases (tol : float) (l : list Case) : list nat := failing (map (check_case tol) l).
