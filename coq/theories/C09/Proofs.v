(* C09/Proofs.v *)
From Coq Require Import List Arith Bool Reals Lia Lra PeanoNat.
Import ListNotations.
From SM Require Import Base.Num Base.Mesh Base.Sums C01.Model C09.Model.

(* ---------------------------------------------------------------- arithmetic of the wrapping counter *)
Lemma succ_mod_zero s n : 0 < n -> S s mod n = 0 -> S (s mod n) = n.
Proof.
  intros Hn H. pose proof (Nat.div_mod s n ltac:(lia)) as Hd.
  pose proof (Nat.mod_upper_bound s n ltac:(lia)) as Hu.
  destruct (Nat.lt_ge_cases (S (s mod n)) n) as [Hlt|Hge]; [|lia].
  exfalso. assert (S s mod n = S (s mod n)).
  { symmetry. apply (Nat.mod_unique (S s) n (s / n)); lia. }
  lia.
Qed.

Lemma succ_mod_nonzero s n : 0 < n -> S s mod n <> 0 -> S s mod n = S (s mod n) /\ S s / n = s / n.
Proof.
  intros Hn H. pose proof (Nat.div_mod s n ltac:(lia)) as Hd.
  pose proof (Nat.mod_upper_bound s n ltac:(lia)) as Hu.
  destruct (Nat.lt_ge_cases (S (s mod n)) n) as [Hlt|Hge].
  - split.
    + symmetry. apply (Nat.mod_unique (S s) n (s / n)); lia.
    + symmetry. apply (Nat.div_unique (S s) n (s / n) (S (s mod n))); lia.
  - exfalso. apply H. symmetry. apply (Nat.mod_unique (S s) n (S (s / n))); [lia|]. nia.
Qed.

Section Agree.
  Variable cutoff : R.
  Variable wt : nat -> nat -> R.
  Variable leaf_at : env -> Leaf (T:=R).
  (* a pure-Python definition has no orientation parameters: no spherical correction *)
  Hypothesis proj_one : forall e, lproj (leaf_at e) = 1%R.

  Variable k0 n0 : nat.
  Variable kr nr : list nat.
  Hypothesis Hn0 : 0 < n0.

  Lemma py_partial_wprod outer : py_partial ROps wt kr outer = wprod ROps wt kr outer.
  Proof.
    unfold py_partial.
    assert (G : forall ks idx a, fold_left (fun a ki => mul ROps a (wt (fst ki) (snd ki))) (combine ks idx) a
                                 = (a * wprod ROps wt ks idx)%R).
    { induction ks as [|k ks IH]; intros idx a; simpl; [lra|].
      destruct idx as [|i idx]; simpl; [lra|]. rewrite IH. simpl. ring. }
    rewrite G. simpl. ring.
  Qed.

  Definition Inv (s : nat) (st : pst (T:=R)) : Prop :=
    (s mod n0 = 0 -> p0i st = n0) /\
    (s mod n0 <> 0 -> p0i st = s mod n0 /\ pouter st = decode nr (s / n0)
                      /\ ppw st = py_partial ROps wt kr (decode nr (s / n0))).

  Lemma py_step_spec c s st : Inv s st ->
    py_step ROps cutoff wt leaf_at k0 n0 kr nr c st s =
    MkPst (S (s mod n0)) (decode nr (s / n0)) (py_partial ROps wt kr (decode nr (s / n0)))
          (body ROps cutoff (k0 :: kr) wt leaf_at c (decode (n0 :: nr) s) (pacc st)).
  Proof.
    intros [H0 H1]. unfold py_step.
    assert (E : (if p0i st =? n0
                 then (s mod n0, decode nr (s / n0), py_partial ROps wt kr (decode nr (s / n0)))
                 else (p0i st, pouter st, ppw st))
                = (s mod n0, decode nr (s / n0), py_partial ROps wt kr (decode nr (s / n0)))).
    { destruct (Nat.eq_dec (s mod n0) 0) as [Hz|Hnz].
      - rewrite (H0 Hz), Nat.eqb_refl. reflexivity.
      - destruct (H1 Hnz) as [Ha [Hb Hc]].
        pose proof (Nat.mod_upper_bound s n0 ltac:(lia)).
        destruct (Nat.eqb_spec (p0i st) n0); [lia|]. rewrite Ha, Hb, Hc. reflexivity. }
    rewrite E. f_equal.
    unfold body, term. cbn [decode wprod].
    rewrite py_partial_wprod. rewrite proj_one.
    set (w0 := wprod ROps wt kr (decode nr (s / n0))).
    set (lf := leaf_at (bind (k0 :: kr) (s mod n0 :: decode nr (s / n0)) e0)).
    cbn [mul add ltb zero ROps].
    replace (1 * (wt k0 (s mod n0) * w0))%R with (w0 * wt k0 (s mod n0))%R by ring.
    destruct (Rltb cutoff (w0 * wt k0 (s mod n0))), (lvalid lf); try reflexivity; lra.
  Qed.

  Lemma py_step_inv c s st : Inv s st -> Inv (S s) (py_step ROps cutoff wt leaf_at k0 n0 kr nr c st s).
  Proof.
    intros H. rewrite (py_step_spec c s st H). split; cbn [p0i pouter ppw]; intros Hm.
    - apply succ_mod_zero; auto.
    - destruct (succ_mod_nonzero s n0 Hn0 Hm) as [Ha Hb]. rewrite Ha, Hb. auto.
  Qed.

  Lemma py_fold c k :
    let st := fold_left (py_step ROps cutoff wt leaf_at k0 n0 kr nr c) (seq 0 k) (py_init ROps n0) in
    Inv k st /\ pacc st = steps R (body ROps cutoff (k0 :: kr) wt leaf_at c) (n0 :: nr) 0 k 0%R.
  Proof.
    induction k as [|k [IHi IHa]]; cbn zeta.
    - split; [|reflexivity]. split; intros Hm; cbn [py_init p0i]; [reflexivity|].
      rewrite Nat.mod_0_l in Hm by lia. contradiction.
    - rewrite seq_S, fold_left_app. cbn [fold_left plus]. split.
      + apply py_step_inv. exact IHi.
      + rewrite (py_step_spec c k _ IHi). cbn [pacc]. rewrite IHa.
        unfold steps. rewrite seq_S, fold_left_app. reflexivity.
  Qed.

  Hypothesis Hnr : Forall (fun n => 0 < n) nr.

  (* The dispersity loop of the Python path accumulates exactly what the C loop
     nest accumulates - for every partition of the C run into kernel calls and
     whatever the result buffer held before. *)
  Theorem py_loops_agree c parts prev :
    covers 0 (prod (n0 :: nr)) parts ->
    py_loops ROps cutoff wt leaf_at k0 n0 kr nr c =
    loop_component ROps cutoff (k0 :: kr) (n0 :: nr) wt leaf_at c parts prev.
  Proof.
    intros Hc. unfold loop_component.
    rewrite run_chunks_independent by (auto; constructor; auto).
    unfold py_loops. destruct (py_fold c (prod (n0 :: nr))) as [_ Ha]. exact Ha.
  Qed.
End Agree.

(* the monodisperse branch: one evaluation with weight 1, provided cutoff < 1 *)
Theorem py_mono_agree cutoff wt (leaf_at : env -> Leaf (T:=R)) ks c prev :
  (forall e, lproj (leaf_at e) = 1%R) -> (cutoff < 1)%R ->
  (forall k i, wt k i = 1%R) ->                     (* one-point distributions carry weight 1 *)
  Forall (fun k => True) ks ->
  py_mono ROps leaf_at c =
  loop_component ROps cutoff ks (map (fun _ => 1) ks) wt
                 (fun e => leaf_at e0) c [(0, 1)] prev.
Proof.
  intros Hp Hc Hw _. unfold loop_component, run_chunks. cbn [fold_left fst snd].
  unfold invoke. cbn [Nat.eqb Nat.sub]. cbn [cloop]. cbn [Nat.leb].
  unfold body, term, py_mono. rewrite Hp.
  assert (W : forall idx, wprod ROps wt ks idx = 1%R).
  { induction ks as [|k r IH]; intros idx; simpl; auto. destruct idx; simpl; auto. rewrite Hw, IH. lra. }
  rewrite W. cbn [mul add ltb zero ROps].
  replace (1 * 1)%R with 1%R by ring.
  destruct (Rltb cutoff 1) eqn:E; [|apply Rltb_false in E; lra].
  destruct (lvalid (leaf_at e0)); lra.
Qed.

(* ------------------------------------------------------------------ the validator *)
From Coq Require Import String ZArith.
Open Scope string_scope.

Lemma smem_In x l : smem x l = true <-> In x l.
Proof.
  unfold smem. rewrite existsb_exists. split.
  - intros [y [Hy E]]. apply String.eqb_eq in E. subst; auto.
  - intros H. exists x. split; auto. apply String.eqb_refl.
Qed.

Lemma nodupb_NoDup l : nodupb l = true -> NoDup l.
Proof.
  induction l as [|x r IH]; simpl; intros H; [constructor|].
  apply andb_true_iff in H. destruct H as [H1 H2]. constructor; auto.
  intros Hin. apply smem_In in Hin. rewrite Hin in H1. discriminate.
Qed.

(* what an accepted definition is guaranteed to satisfy *)
Set Implicit Arguments.
Record well_formed (unit : Z) (d : defn) : Prop := {
  wf_limits : forall p, In p (d_pars d) -> ext_lt (p_lo p) (p_hi p) = true;
  wf_default : forall p, In p (d_pars d) -> ext_le (p_lo p) (p_def p) = true /\ ext_le (p_def p) (p_hi p) = true;
  wf_types : forall p, In p (d_pars d) -> In (p_type p) ["volume"; "orientation"; "sld"; "magnetic"; ""];
  wf_names : NoDup ("scale" :: "background" :: map p_id (d_pars d));
  wf_orientation : forall p, In p (d_pars d) -> (p_type p = "orientation" <-> In (p_id p) angle_names);
  wf_xy : d_python d = false ->
          (d_xy d = XYqabc -> is_asymmetric (d_pars d) = true) /\
          (d_xy d = XYqac -> has_orientation (d_pars d) = true /\ is_asymmetric (d_pars d) = false) /\
          (d_xy d = XYnone -> has_orientation (d_pars d) = false)
}.

Theorem validate_sound unit d : validate unit d = true -> well_formed unit d.
Proof.
  unfold validate. intros H.
  repeat (apply andb_true_iff in H; destruct H as [H ?]).
  match goal with Hx : xy_ok d = true |- _ => rename Hx into Hxy end.
  match goal with Hx : nodupb _ = true |- _ => rename Hx into Hnd end.
  match goal with Hx : angles_ok _ = true |- _ => rename Hx into Hang end.
  rewrite forallb_forall in H.
  constructor.
  - intros p Hp. specialize (H p Hp). unfold par_ok in H.
    repeat (apply andb_true_iff in H; destruct H as [H ?]). exact H.
  - intros p Hp. specialize (H p Hp). unfold par_ok in H.
    repeat (apply andb_true_iff in H; destruct H as [H ?]). auto.
  - intros p Hp. specialize (H p Hp). unfold par_ok in H.
    repeat (apply andb_true_iff in H; destruct H as [H ?]). apply smem_In. assumption.
  - apply nodupb_NoDup. exact Hnd.
  - intros p Hp. unfold angles_ok in Hang. apply andb_true_iff in Hang. destruct Hang as [Ha _].
    rewrite forallb_forall in Ha. specialize (Ha p Hp). apply Bool.eqb_prop in Ha.
    rewrite <- smem_In, Ha. symmetry. apply String.eqb_eq.
  - intros Hpy. unfold xy_ok in Hxy. rewrite Hpy in Hxy.
    split; [|split]; intros E; rewrite E in Hxy.
    + exact Hxy.
    + apply andb_true_iff in Hxy. destruct Hxy as [Ho Hn]. apply negb_true_iff in Hn. auto.
    + apply negb_true_iff in Hxy. exact Hxy.
Qed.

(* each ill-formed class is refused *)
Theorem validate_rejects unit d p : In p (d_pars d) ->
  (ext_lt (p_lo p) (p_hi p) = false \/ ext_lt (p_def p) (p_lo p) = true \/ ext_lt (p_hi p) (p_def p) = true
   \/ ~ In (p_type p) ["volume"; "orientation"; "sld"; "magnetic"; ""]
   \/ (p_type p = "orientation" /\ ~ In (p_id p) angle_names)
   \/ (In (p_id p) angle_names /\ p_type p <> "orientation")
   \/ In (p_id p) ["scale"; "background"]) ->
  validate unit d = false.
Proof.
  intros Hp Hbad. destruct (validate unit d) eqn:E; auto. exfalso.
  pose proof (validate_sound unit d E) as W.
  destruct Hbad as [H|[H|[H|[H|[H|[H|H]]]]]].
  - rewrite (wf_limits W p Hp) in H. discriminate.
  - destruct (wf_default W p Hp) as [A _]. unfold ext_le in A. rewrite H in A. discriminate.
  - destruct (wf_default W p Hp) as [_ A]. unfold ext_le in A. rewrite H in A. discriminate.
  - apply H. apply (wf_types W p Hp).
  - destruct H as [A B]. apply B. apply (wf_orientation W p Hp). exact A.
  - destruct H as [A B]. apply B. apply (wf_orientation W p Hp). exact A.
  - pose proof (wf_names W) as N. apply in_map with (f := p_id) in Hp.
    inversion N as [|x l N1 N2]; subst. inversion N2 as [|y l' N3 N4]; subst.
    destruct H as [H|[H|[]]].
    + apply N1. right. rewrite H. exact Hp.
    + apply N3. rewrite H. exact Hp.
Qed.

Theorem validate_rejects_duplicate unit d a b pre mid post :
  d_pars d = (pre ++ a :: mid ++ b :: post)%list -> p_id a = p_id b -> validate unit d = false.
Proof.
  intros Hd Hab. destruct (validate unit d) eqn:E; auto. exfalso.
  pose proof (wf_names (validate_sound unit d E)) as N.
  rewrite Hd in N. inversion N as [|x l _ N2]; subst. inversion N2 as [|y l' _ N4]; subst.
  rewrite map_app in N4. cbn [map] in N4. apply NoDup_remove_2 in N4. apply N4.
  apply in_or_app. right. rewrite map_app. apply in_or_app. right. left. auto.
Qed.

(* misplaced orientation parameters: theta without phi (or the reverse), phi not
   directly after theta, psi not directly after phi, or the block not at the end *)
Theorem validate_rejects_misplaced unit d :
  (match last_index_of "theta" (d_pars d) 0, last_index_of "phi" (d_pars d) 0, last_index_of "psi" (d_pars d) 0 with
   | Some t, Some f, None => f <> S t \/ S f <> List.length (d_pars d)
   | Some t, Some f, Some s => f <> S t \/ s <> S f \/ (S f <> List.length (d_pars d) /\ S s <> List.length (d_pars d))
   | None, None, None => False
   | _, _, _ => True
   end) -> validate unit d = false.
Proof.
  intros H. unfold validate.
  assert (A : angles_ok (d_pars d) = false).
  { unfold angles_ok. apply andb_false_iff. right.
    destruct (last_index_of "theta" (d_pars d) 0) as [t|], (last_index_of "phi" (d_pars d) 0) as [f|],
             (last_index_of "psi" (d_pars d) 0) as [s|]; try reflexivity; try contradiction.
    - destruct H as [H|[H|H]].
      + apply Nat.eqb_neq in H. rewrite H. reflexivity.
      + apply Nat.eqb_neq in H. rewrite H. apply andb_false_iff. left. apply andb_false_r.
      + destruct (Nat.eqb_spec f (S t)); [|reflexivity]. destruct (Nat.eqb_spec s (S f)); [|reflexivity].
        cbn [andb]. destruct H as [H1 H2]. apply Nat.eqb_neq in H1, H2. rewrite H1, H2. reflexivity.
    - destruct H as [H|H]; apply Nat.eqb_neq in H; rewrite H; [reflexivity|apply andb_false_r]. }
  rewrite A. rewrite andb_false_r. reflexivity.
Qed.
