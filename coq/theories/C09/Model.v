(* C09/Model.v — the pure-Python execution path (kernelpy._loops) beside the
   C loop nest of C01, and the definition validator (modelinfo / generate).
   Definitions only; proofs are in Proofs.v. *)
From Coq Require Import List Arith Bool.
Import ListNotations.
From SM Require Import Base.Num Base.Mesh Base.Sums C01.Model.

Section PyLoops.
  Context {T : Type} (O : Ops T).
  Variable cutoff : T.
  Variable wt : nat -> nat -> T.                 (* weight i of parameter p *)
  Variable leaf_at : env -> Leaf (T:=T).         (* the definition at a mesh point; lvalid = "form() is not NaN" *)

  (* ---- num_active == 0:  total = form(); weight_norm = 1; volumes; radius
          (after the repair: a NaN point leaves every sum empty) ---- *)
  Definition py_mono (c : nat) : T :=
    let lf := leaf_at e0 in
    if lvalid lf then nth c (lcomp lf) (zero O) else zero O.

  (* ---- num_active > 0 ---- *)
  Variable k0 n0 : nat.          (* pd_par[0], pd_length[0]: the fastest loop *)
  Variable kr nr : list nat.     (* the other active loops, pd_stride increasing *)

  (* np.prod(pd_weight[pd_offset+pd_index][1:]): left-to-right product from 1 *)
  Definition py_partial (outer : list nat) : T :=
    fold_left (fun a ki => mul O a (wt (fst ki) (snd ki))) (combine kr outer) (one O).

  Record pst := MkPst { p0i : nat; pouter : list nat; ppw : T; pacc : T }.

  (* one pass of "for loop_index in range(num_eval)" for accumulator component c *)
  Definition py_step (c : nat) (st : pst) (s : nat) : pst :=
    let '(i0, outer, pw) :=
      if p0i st =? n0
      then (s mod n0, decode nr (s / n0), py_partial (decode nr (s / n0)))   (* pd_index = (loop_index//stride)%length *)
      else (p0i st, pouter st, ppw st) in
    let weight := mul O pw (wt k0 i0) in
    let lf := leaf_at (bind (k0 :: kr) (i0 :: outer) e0) in
    let acc := if ltb O cutoff weight
               then (if lvalid lf then add O (pacc st) (mul O weight (nth c (lcomp lf) (zero O))) else pacc st)
               else pacc st in
    MkPst (S i0) outer pw acc.

  Definition py_init : pst := MkPst n0 [] (zero O) (zero O).   (* p0_index = p0_length; partial_weight = nan (never read) *)
  Definition py_loops (c : nat) : T :=
    pacc (fold_left (py_step c) (seq 0 (prod (n0 :: nr))) py_init).
End PyLoops.

(* the whole of _loops for component c given the active slots in pd_stride order *)
Definition py_component {T} (O : Ops T) cutoff wt leaf_at (ks ns : list nat) (c : nat) : T :=
  match ks, ns with
  | k0 :: kr, n0 :: nr => py_loops O cutoff wt leaf_at k0 n0 kr nr c
  | _, _ => py_mono O leaf_at c
  end.

(* ------------------------------------------------------------------------
   Definition validation: modelinfo.parse_parameter, ParameterTable
   (check_angles strict, check_duplicates, _set_vector_lengths) and the 2-D
   mode test of generate.make_source. *)
From Coq Require Import String ZArith.
Open Scope string_scope.

Inductive ext := NegInf | Fin (z : Z) | PosInf.      (* numbers are scaled integers *)
Definition ext_lt (a b : ext) : bool :=
  match a, b with
  | NegInf, NegInf => false | NegInf, _ => true
  | Fin x, Fin y => Z.ltb x y | Fin _, PosInf => true | Fin _, NegInf => false
  | PosInf, _ => false
  end.
Definition ext_le (a b : ext) : bool := negb (ext_lt b a).

Inductive vec := Scalar | FixedLen (n : nat) | Controlled (ref : string).
Record pdef := MkP { p_id : string; p_vec : vec; p_lo : ext; p_hi : ext; p_def : ext; p_type : string }.

Inductive xymode := XYnone | XYqxy | XYqac | XYqabc.       (* which 2-D function the source defines *)
Record defn := MkD { d_pars : list pdef; d_xy : xymode; d_python : bool }.

Definition smem (x : string) (l : list string) : bool := existsb (String.eqb x) l.

Definition par_ok (p : pdef) : bool :=
  ext_lt (p_lo p) (p_hi p)                                   (* "require lower limit < upper limit" *)
  && ext_le (p_lo p) (p_def p) && ext_le (p_def p) (p_hi p)  (* "default value not in range" *)
  && smem (p_type p) ["volume"; "orientation"; "sld"; "magnetic"; ""].

Fixpoint index_of (x : string) (l : list pdef) (i : nat) : option nat :=
  match l with [] => None | p :: r => if String.eqb (p_id p) x then Some i else index_of x r (S i) end.
(* the last parameter carrying the name, as the loop in check_angles leaves it *)
Fixpoint last_index_of (x : string) (l : list pdef) (i : nat) : option nat :=
  match l with
  | [] => None
  | p :: r => match last_index_of x r (S i) with Some j => Some j | None => if String.eqb (p_id p) x then Some i else None end
  end.

Definition angle_names := ["theta"; "phi"; "psi"].
Definition angles_ok (ps : list pdef) : bool :=
  forallb (fun p => Bool.eqb (smem (p_id p) angle_names) (String.eqb (p_type p) "orientation")) ps
  && match last_index_of "theta" ps 0, last_index_of "phi" ps 0, last_index_of "psi" ps 0 with
     | Some t, Some f, None => Nat.eqb f (S t) && Nat.eqb (S f) (List.length ps)
     | Some t, Some f, Some s => Nat.eqb f (S t) && Nat.eqb s (S f) && (Nat.eqb (S f) (List.length ps) || Nat.eqb (S s) (List.length ps))
     | None, None, None => true
     | _, _, _ => false
     end.

Fixpoint nodupb (l : list string) : bool :=
  match l with [] => true | x :: r => negb (smem x r) && nodupb r end.

(* control parameters exist and have integer limits within [0,20] (scale = the Z unit) *)
Definition control_ok (unit : Z) (ps : list pdef) (p : pdef) : bool :=
  match p_vec p with
  | Controlled ref =>
      match index_of ref ps 0 with
      | Some i => match nth_error ps i with
                  | Some r => match p_lo r, p_hi r with
                              | Fin lo, Fin hi => (Z.eqb (lo mod unit) 0) && (Z.eqb (hi mod unit) 0) && (0 <=? lo)%Z && (hi <=? 20 * unit)%Z
                              | _, _ => false
                              end
                  | None => false
                  end
      | None => false
      end
  | _ => true
  end.

Definition has_orientation (ps : list pdef) : bool := existsb (fun p => String.eqb (p_type p) "orientation") ps.
Definition is_asymmetric (ps : list pdef) : bool := existsb (fun p => String.eqb (p_id p) "psi") ps.
(* generate.make_source; XYqxy on an oriented table only logs a warning *)
Definition xy_ok (d : defn) : bool :=
  if d_python d then true else
  match d_xy d with
  | XYqabc => is_asymmetric (d_pars d)
  | XYqac => has_orientation (d_pars d) && negb (is_asymmetric (d_pars d))
  | XYqxy => true
  | XYnone => negb (has_orientation (d_pars d))
  end.

Definition validate (unit : Z) (d : defn) : bool :=
  forallb par_ok (d_pars d) && angles_ok (d_pars d)
  && nodupb ("scale" :: "background" :: map p_id (d_pars d))
  && forallb (control_ok unit (d_pars d)) (d_pars d) && xy_ok d.
