(* C09/Exec.v — binary64 instantiation used by the generated case files. *)
From Coq Require Import List Arith Bool PrimFloat String ZArith.
Import ListNotations.
From SM Require Import Base.Num Base.Mesh Base.Sums C01.Model C01.Exec C09.Model.

Record PCase := MkPCase {
  pc_lens : list nat;                          (* distribution length per kernel parameter, table order *)
  pc_W : list (list float);                    (* weights per parameter *)
  pc_leaves : list (bool * float * list float);(* row-major: valid, 1.0, [1; V_form; V_shell; R_eff; I(q_0)..] from direct evaluation of the definition *)
  pc_cutoff : float; pc_nq : nat;
  pc_pks : list nat; pc_pns : list nat;        (* active slots as the Python loop reads them (num_active entries) *)
  pc_cks : list nat; pc_cns : list nat;        (* slots as the C kernel reads them (max_pd entries) *)
  pc_py : list float;                          (* observed _loops result: norm, form, shell, radius, total.. *)
  pc_c : list float                            (* observed raw C sums, same order ([] = not observed) *)
}.

Definition pcomp (cs : PCase) : nat := 4 + pc_nq cs.

Definition py_sums (cs : PCase) : list float :=
  map (py_component FOps (pc_cutoff cs) (wt_of (pc_W cs)) (leaf_of (pc_lens cs) (pc_leaves cs) false) (pc_pks cs) (pc_pns cs))
      (seq 0 (pcomp cs)).
Definition c_sums (cs : PCase) : list float :=
  map (fun c => loop_component FOps (pc_cutoff cs) (pc_cks cs) (pc_cns cs) (wt_of (pc_W cs))
                  (leaf_of (pc_lens cs) (pc_leaves cs) false) c [(0, prod (pc_cns cs))] 0%float)
      (seq 0 (pcomp cs)).
Definition formula_sums (cs : PCase) (absval : bool) : list float :=
  map (spec_component FOps (pc_cutoff cs) (wt_of (pc_W cs)) (leaf_of (pc_lens cs) (pc_leaves cs) absval) (pc_lens cs))
      (seq 0 (pcomp cs)).

(* codes: 1 = Python path differs from its model, 2 = C path differs from its model,
   3 = the two models differ, 4 = Python model differs from the formula over the full mesh *)
Definition check_pcase (rel : float) (cs : PCase) : list nat :=
  let A := formula_sums cs true in
  let P := py_sums cs in
  let C := c_sums cs in
  (if all_close rel tiny A P (pc_py cs) then [] else [1]) ++
  (match pc_c cs with [] => [] | obs => if all_close rel tiny A C obs then [] else [2] end) ++
  (if all_close rel tiny A P C then [] else [3]) ++
  (if all_close rel tiny A P (formula_sums cs false) then [] else [4]).
Definition check_pcases (rel : float) (l : list PCase) : list (list nat) := map (check_pcase rel) l.

(* ---- validator: indices of definitions where the implementation's accept/refuse differs ---- *)
Record VCase := MkV { v_def : defn; v_impl_ok : bool }.
Definition check_vcases (unit : Z) (l : list VCase) : list nat :=
  failing (map (fun v => Bool.eqb (validate unit (v_def v)) (v_impl_ok v)) l).
