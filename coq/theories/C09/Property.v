(* C09/Property.v — the property theorems and nothing else. *)
From Coq Require Import List Arith Bool Reals String ZArith.
Import ListNotations.
From SM Require Import Base.Num Base.Mesh Base.Sums C01.Model C09.Model C09.Proofs.

(* The dispersity loop of kernelpy._loops and the C loop nest accumulate the same
   sums (norm, volumes, effective radius, intensity at every q) for every mesh,
   cutoff, partition of the C run and previous buffer content. *)
Theorem C09_loops_agree : forall cutoff wt (leaf_at : env -> Leaf (T:=R)) k0 n0 kr nr c parts prev,
  (forall e, lproj (leaf_at e) = 1%R) -> 0 < n0 -> Forall (fun n => 0 < n) nr ->
  covers 0 (prod (n0 :: nr)) parts ->
  py_loops ROps cutoff wt leaf_at k0 n0 kr nr c =
  loop_component ROps cutoff (k0 :: kr) (n0 :: nr) wt leaf_at c parts prev.
Proof. intros. apply py_loops_agree; assumption. Qed.
Print Assumptions C09_loops_agree.

Theorem C09_mono_agree : forall cutoff wt (leaf_at : env -> Leaf (T:=R)) ks c prev,
  (forall e, lproj (leaf_at e) = 1%R) -> (cutoff < 1)%R -> (forall k i, wt k i = 1%R) ->
  py_mono ROps leaf_at c =
  loop_component ROps cutoff ks (map (fun _ => 1) ks) wt (fun e => leaf_at e0) c [(0, 1)] prev.
Proof. intros. apply py_mono_agree; auto. clear. induction ks; constructor; auto. Qed.
Print Assumptions C09_mono_agree.

Theorem C09_validator_sound : forall unit d, validate unit d = true -> well_formed unit d.
Proof. exact validate_sound. Qed.
Print Assumptions C09_validator_sound.

Theorem C09_validator_rejects : forall unit d p, In p (d_pars d) ->
  (ext_lt (p_lo p) (p_hi p) = false \/ ext_lt (p_def p) (p_lo p) = true \/ ext_lt (p_hi p) (p_def p) = true
   \/ ~ In (p_type p) ["volume"; "orientation"; "sld"; "magnetic"; ""]%string
   \/ (p_type p = "orientation"%string /\ ~ In (p_id p) angle_names)
   \/ (In (p_id p) angle_names /\ p_type p <> "orientation"%string)
   \/ In (p_id p) ["scale"; "background"]%string) ->
  validate unit d = false.
Proof. exact validate_rejects. Qed.
Print Assumptions C09_validator_rejects.

Theorem C09_validator_rejects_duplicate : forall unit d a b pre mid post,
  d_pars d = (pre ++ a :: mid ++ b :: post)%list -> p_id a = p_id b -> validate unit d = false.
Proof. exact validate_rejects_duplicate. Qed.
Print Assumptions C09_validator_rejects_duplicate.

Theorem C09_validator_rejects_misplaced : forall unit d,
  (match last_index_of "theta" (d_pars d) 0, last_index_of "phi" (d_pars d) 0, last_index_of "psi" (d_pars d) 0 with
   | Some t, Some f, None => f <> S t \/ S f <> List.length (d_pars d)
   | Some t, Some f, Some s => f <> S t \/ s <> S f \/ (S f <> List.length (d_pars d) /\ S s <> List.length (d_pars d))
   | None, None, None => False
   | _, _, _ => True
   end) -> validate unit d = false.
Proof. exact validate_rejects_misplaced. Qed.
Print Assumptions C09_validator_rejects_misplaced.

(* both executions start from the same definition only if every function the definition gives as an inline string
   reaches the C source: which wrappers make_source writes is READ from the current generate.py (Gen/C09_wrappers.v,
   the isinstance(model_info.X, str) statements with their nesting) - a wrapper for X is written exactly when X is an
   inline string, with the parameter list of its kind, whatever form the OTHER functions of the definition have *)
From SM Require Import C09.Wrappers Gen.C09_wrappers.
Theorem C09_code_wrappers : wrappers_translated = true -> forall inl, code_wrappers inl = wrappers inl.
Proof.
  intros Ht. try solve [vm_compute in Ht; discriminate Ht].
  all: intros inl; unfold code_wrappers, wrappers, all_fns; cbn [filter map app].
  all: destruct (inl FormVolume), (inl ShellVolume), (inl FIq), (inl FIqxy), (inl FIqac), (inl FIqabc); reflexivity.
Qed.
Print Assumptions C09_code_wrappers.
Theorem C09_code_wrapper_iff : wrappers_translated = true -> forall inl f s,
  In (f, s) (code_wrappers inl) <-> inl f = true /\ s = sig_of f.
Proof. intros Ht inl f s. rewrite (C09_code_wrappers Ht). apply wrappers_spec. Qed.
Print Assumptions C09_code_wrapper_iff.
