(* C09/Wrappers.v - the C wrapper functions generate.make_source writes for the functions a definition gives as inline
   strings: one per such function, with the parameter list of its kind, whatever form the other functions have. *)
From Coq Require Import List Bool.
Import ListNotations.
Inductive fn := FormVolume | ShellVolume | FIq | FIqxy | FIqac | FIqabc.
(* parameter lists: form_volume_parameters; [q] + iq_parameters; [qx, qy] + iq_parameters + orientation_parameters;
   [qab, qc] + iq_parameters; [qa, qb, qc] + iq_parameters *)
Inductive sig := SVolume | SIq | SIqxy | SIqac | SIqabc.
Definition sig_of (f : fn) : sig :=
  match f with FormVolume | ShellVolume => SVolume | FIq => SIq | FIqxy => SIqxy | FIqac => SIqac | FIqabc => SIqabc end.
Definition all_fns : list fn := [FormVolume; ShellVolume; FIq; FIqxy; FIqac; FIqabc].
Definition wrappers (inl : fn -> bool) : list (fn * sig) := map (fun f => (f, sig_of f)) (filter inl all_fns).

Lemma wrappers_spec inl f s : In (f, s) (wrappers inl) <-> inl f = true /\ s = sig_of f.
Proof.
  unfold wrappers. rewrite in_map_iff. split.
  - intros [g [Hg Hin]]. injection Hg as <- <-. apply filter_In in Hin. split; [apply Hin | reflexivity].
  - intros [Hf ->]. exists f. split; [reflexivity|]. apply filter_In. split; [destruct f; cbn; tauto | exact Hf].
Qed.
