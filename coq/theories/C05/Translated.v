(* C05/Translated.v — the rotation helpers regenerated from the text of kernel_iq.c (Gen/C05_code.v)
   are the model's: equality over the reals for all arguments (a ring identity per matrix entry, so a
   harmless reordering of factors in the C source keeps the proof, a changed sign or angle breaks it). *)
From Coq Require Import Reals Lra.
From SM Require Import Base.Num C05.Model C05.Proofs Gen.C05_code.
Open Scope R_scope.

Ltac unfold_code := unfold code_qabc_rotation, code_qac_rotation, code_qabc_apply, code_qac_apply,
  qabc_apply, qabc_rotation, qac_apply, qac_rotation;
  cbn [add mul sub opp zero one ltb ROps c_ s_ v1 v2 v3 r11 r12 r21 r22 r31 r32 fst snd].

Theorem code_qabc_rotation_is_model (theta phi psi dtheta dphi dpsi : csR) :
  code_qabc_rotation ROps theta phi psi dtheta dphi dpsi = qabc_rotation ROps theta phi psi dtheta dphi dpsi.
Proof. destruct theta, phi, psi, dtheta, dphi, dpsi. unfold_code. f_equal; ring. Qed.

Theorem code_qac_rotation_is_model (theta phi dtheta dphi : csR) :
  code_qac_rotation ROps theta phi dtheta dphi = qac_rotation ROps theta phi dtheta dphi.
Proof. destruct theta, phi, dtheta, dphi. unfold_code. f_equal; ring. Qed.

Theorem code_qabc_apply_is_model (r : qabc_rot (T:=R)) qx qy :
  code_qabc_apply ROps r qx qy = qabc_apply ROps r qx qy.
Proof. destruct r. unfold_code. f_equal; ring. Qed.

(* qac_apply in C returns qab itself: the square root of the model's first component when positive, else 0 *)
Definition qab_of (m : R) : R := if Rltb 0 m then sqrt m else 0.
Theorem code_qac_apply_is_model (r : R * R) qx qy :
  code_qac_apply ROps sqrt r qx qy =
  (qab_of (fst (qac_apply ROps r qx qy)), snd (qac_apply ROps r qx qy)).
Proof.
  destruct r as [a b]. unfold_code. unfold qab_of.
  match goal with |- ((if Rltb 0 ?x then sqrt ?x' else 0), ?y) = ((if Rltb 0 ?u then sqrt ?u' else 0), ?v) =>
    replace x with u by ring; replace x' with u by ring; replace y with v by ring end.
  reflexivity.
Qed.

(* the documented convention, stated on the translated code itself *)
Theorem code_qabc_is_Rinv (theta phi psi dtheta dphi dpsi : csR) qx qy :
  code_qabc_apply ROps (code_qabc_rotation ROps theta phi psi dtheta dphi dpsi) qx qy =
  mapply ROps (transpose (Rdoc ROps theta phi psi dtheta dphi dpsi)) (V3 qx qy 0).
Proof. rewrite code_qabc_rotation_is_model, code_qabc_apply_is_model. apply qabc_is_Rinv. Qed.

Theorem code_qac_is_Rinv (theta phi dtheta dphi : csR) qx qy :
  unit theta -> unit phi -> unit dtheta -> unit dphi ->
  let q := mapply ROps (transpose (Rdoc ROps theta phi cs0 dtheta dphi cs0)) (V3 qx qy 0) in
  code_qac_apply ROps sqrt (code_qac_rotation ROps theta phi dtheta dphi) qx qy =
  (qab_of (v1 q * v1 q + v2 q * v2 q), v3 q).
Proof.
  intros Ht Hp Hdt Hdp q. rewrite code_qac_rotation_is_model, code_qac_apply_is_model.
  rewrite (qac_qab theta phi dtheta dphi qx qy Ht Hp Hdt Hdp), (qac_is_Rinv theta phi dtheta dphi qx qy).
  reflexivity.
Qed.
