From Coq Require Import Reals Lra Lia.
From SM Require Import Base.Num C05.Model.
Open Scope R_scope.

Notation csR := (cs (T:=R)).
Notation matR := (mat3 (T:=R)).
Notation vecR := (vec3 (T:=R)).
Definition unit (a : csR) : Prop := c_ a * c_ a + s_ a * s_ a = 1.
Definition of_angle (x : R) : csR := CS (cos x) (sin x).
Lemma of_angle_unit x : unit (of_angle x).
Proof. unfold unit, of_angle; simpl. pose proof (sin2_cos2 x). unfold Rsqr in H. lra. Qed.

Ltac unfold_all := unfold qabc_apply, qabc_rotation, qac_apply, qac_rotation, mapply, transpose, mmul, Rx, Ry, Rz; cbn [add mul sub opp zero one ROps
  c_ s_ v1 v2 v3 m11 m12 m13 m21 m22 m23 m31 m32 m33 r11 r12 r21 r22 r31 r32 fst snd].

(* ---- generic matrix algebra (matrices as variables: small ring goals) ---- *)
Lemma mmul_assoc (A B C : matR) : mmul ROps A (mmul ROps B C) = mmul ROps (mmul ROps A B) C.
Proof. destruct A, B, C. unfold_all. f_equal; ring. Qed.
Lemma transpose_mmul (A B : matR) : transpose (mmul ROps A B) = mmul ROps (transpose B) (transpose A).
Proof. destruct A, B. unfold_all. f_equal; ring. Qed.
Lemma mapply_mmul (A B : matR) v : mapply ROps (mmul ROps A B) v = mapply ROps A (mapply ROps B v).
Proof. destruct A, B, v. unfold_all. f_equal; ring. Qed.

Definition view (theta phi psi : csR) : matR := mmul ROps (Rz ROps phi) (mmul ROps (Ry ROps theta) (Rz ROps psi)).
Definition jitter (dtheta dphi dpsi : csR) : matR := mmul ROps (Rx ROps dphi) (mmul ROps (Ry ROps dtheta) (Rz ROps dpsi)).

Lemma Rdoc_split theta phi psi dtheta dphi dpsi :
  Rdoc ROps theta phi psi dtheta dphi dpsi = mmul ROps (view theta phi psi) (jitter dtheta dphi dpsi).
Proof. unfold Rdoc, view, jitter. rewrite !mmul_assoc. reflexivity. Qed.

(* the kernel's "reverse view matrix" applied to a detector point *)
Lemma view_inv_apply theta phi psi qx qy :
  mapply ROps (transpose (view theta phi psi)) (V3 qx qy 0) =
  V3 ((- s_ phi * s_ psi + c_ phi * c_ psi * c_ theta) * qx + (s_ phi * c_ psi * c_ theta + s_ psi * c_ phi) * qy)
     ((- s_ phi * c_ psi - s_ psi * c_ phi * c_ theta) * qx + (- s_ phi * s_ psi * c_ theta + c_ phi * c_ psi) * qy)
     ((s_ theta * c_ phi) * qx + (s_ phi * s_ theta) * qy).
Proof. unfold view. destruct theta, phi, psi. unfold_all. f_equal; ring. Qed.

(* the kernel's "reverse jitter matrix" *)
Lemma jitter_inv_apply dtheta dphi dpsi (w : vecR) :
  mapply ROps (transpose (jitter dtheta dphi dpsi)) w =
  V3 ((c_ dpsi * c_ dtheta) * v1 w + (s_ dphi * s_ dtheta * c_ dpsi + s_ dpsi * c_ dphi) * v2 w + (s_ dphi * s_ dpsi - s_ dtheta * c_ dphi * c_ dpsi) * v3 w)
     ((- s_ dpsi * c_ dtheta) * v1 w + (- s_ dphi * s_ dpsi * s_ dtheta + c_ dphi * c_ dpsi) * v2 w + (s_ dphi * c_ dpsi + s_ dpsi * s_ dtheta * c_ dphi) * v3 w)
     ((s_ dtheta) * v1 w + (- s_ dphi * c_ dtheta) * v2 w + (c_ dphi * c_ dtheta) * v3 w).
Proof. unfold jitter. destruct dtheta, dphi, dpsi, w. unfold_all. f_equal; ring. Qed.

(* the kernel's matrix is the inverse (= transpose) of the documented product:
   a polynomial identity in the six cosines and sines, no trigonometric fact needed *)
Theorem qabc_is_Rinv (theta phi psi dtheta dphi dpsi : csR) qx qy :
  qabc_apply ROps (qabc_rotation ROps theta phi psi dtheta dphi dpsi) qx qy =
  mapply ROps (transpose (Rdoc ROps theta phi psi dtheta dphi dpsi)) (V3 qx qy 0).
Proof.
  rewrite Rdoc_split, transpose_mmul, mapply_mmul, view_inv_apply, jitter_inv_apply.
  destruct theta, phi, psi, dtheta, dphi, dpsi. unfold_all. f_equal; ring.
Qed.

Definition cs0 : csR := CS 1 0.

(* symmetric shapes: qc is the third component of the same product with psi = dpsi = 0 *)
Theorem qac_is_Rinv (theta phi dtheta dphi : csR) qx qy :
  snd (qac_apply ROps (qac_rotation ROps theta phi dtheta dphi) qx qy) =
  v3 (mapply ROps (transpose (Rdoc ROps theta phi cs0 dtheta dphi cs0)) (V3 qx qy 0)).
Proof.
  rewrite Rdoc_split, transpose_mmul, mapply_mmul, view_inv_apply, jitter_inv_apply.
  destruct theta, phi, dtheta, dphi. unfold cs0. unfold_all. ring.
Qed.

(* ---- orthogonality, structurally ---- *)
Definition I3 : matR := M3 1 0 0 0 1 0 0 0 1.
Definition orth (A : matR) : Prop := mmul ROps (transpose A) A = I3 /\ mmul ROps A (transpose A) = I3.

Lemma orth_Rx a : unit a -> orth (Rx ROps a).
Proof. unfold unit, orth, I3. intros H. destruct a. unfold_all. simpl in H. split; f_equal; try ring; nra. Qed.
Lemma orth_Ry a : unit a -> orth (Ry ROps a).
Proof. unfold unit, orth, I3. intros H. destruct a. unfold_all. simpl in H. split; f_equal; try ring; nra. Qed.
Lemma orth_Rz a : unit a -> orth (Rz ROps a).
Proof. unfold unit, orth, I3. intros H. destruct a. unfold_all. simpl in H. split; f_equal; try ring; nra. Qed.

Lemma mmul_I_l (A : matR) : mmul ROps I3 A = A.
Proof. destruct A. unfold I3. unfold_all. f_equal; ring. Qed.
Lemma mmul_I_r (A : matR) : mmul ROps A I3 = A.
Proof. destruct A. unfold I3. unfold_all. f_equal; ring. Qed.

Lemma orth_mmul A B : orth A -> orth B -> orth (mmul ROps A B).
Proof.
  unfold orth. intros [HA1 HA2] [HB1 HB2]. rewrite transpose_mmul. split.
  - rewrite <- mmul_assoc. rewrite (mmul_assoc (transpose A) A B). rewrite HA1, mmul_I_l. exact HB1.
  - rewrite <- mmul_assoc. rewrite (mmul_assoc B (transpose B) (transpose A)). rewrite HB2, mmul_I_l. exact HA2.
Qed.

Lemma orth_Rdoc theta phi psi dtheta dphi dpsi :
  unit theta -> unit phi -> unit psi -> unit dtheta -> unit dphi -> unit dpsi ->
  orth (Rdoc ROps theta phi psi dtheta dphi dpsi).
Proof.
  intros. unfold Rdoc. repeat apply orth_mmul; auto using orth_Rx, orth_Ry, orth_Rz.
Qed.

Definition norm2 (v : vecR) : R := v1 v * v1 v + v2 v * v2 v + v3 v * v3 v.

(* |M v|^2 = v^T (M^T M) v *)
Lemma norm2_mapply (M : matR) v :
  norm2 (mapply ROps M v) =
  let G := mmul ROps (transpose M) M in
  v1 v * (m11 G * v1 v + m12 G * v2 v + m13 G * v3 v) +
  v2 v * (m21 G * v1 v + m22 G * v2 v + m23 G * v3 v) +
  v3 v * (m31 G * v1 v + m32 G * v2 v + m33 G * v3 v).
Proof. destruct M, v. unfold norm2. unfold_all. ring. Qed.

Lemma transpose_involutive (A : matR) : transpose (transpose A) = A.
Proof. destruct A. reflexivity. Qed.

Lemma orth_inv_norm A v : orth A -> norm2 (mapply ROps (transpose A) v) = norm2 v.
Proof.
  intros [_ H2]. rewrite norm2_mapply. rewrite transpose_involutive, H2. destruct v. unfold I3, norm2. simpl. ring.
Qed.

(* |(qa,qb,qc)| = |(qx,qy)| for all angles *)
Theorem qabc_norm (theta phi psi dtheta dphi dpsi : csR) qx qy :
  unit theta -> unit phi -> unit psi -> unit dtheta -> unit dphi -> unit dpsi ->
  norm2 (qabc_apply ROps (qabc_rotation ROps theta phi psi dtheta dphi dpsi) qx qy) = qx * qx + qy * qy.
Proof.
  intros. rewrite qabc_is_Rinv. rewrite orth_inv_norm by (apply orth_Rdoc; auto).
  unfold norm2; simpl. ring.
Qed.

(* symmetric shapes: qab^2 as computed (|q|^2 - qc^2) equals qa^2 + qb^2 of the documented rotation *)
Theorem qac_qab (theta phi dtheta dphi : csR) qx qy :
  unit theta -> unit phi -> unit dtheta -> unit dphi ->
  let q := mapply ROps (transpose (Rdoc ROps theta phi cs0 dtheta dphi cs0)) (V3 qx qy 0) in
  fst (qac_apply ROps (qac_rotation ROps theta phi dtheta dphi) qx qy) = v1 q * v1 q + v2 q * v2 q.
Proof.
  intros Ht Hp Hdt Hdp q.
  assert (Hn : norm2 q = qx * qx + qy * qy).
  { unfold q. rewrite orth_inv_norm.
    - unfold norm2; simpl; ring.
    - apply orth_Rdoc; auto; unfold unit, cs0; simpl; ring. }
  pose proof (qac_is_Rinv theta phi dtheta dphi qx qy) as Hc. fold q in Hc.
  unfold norm2 in Hn.
  assert (Hf : fst (qac_apply ROps (qac_rotation ROps theta phi dtheta dphi) qx qy) =
               qx * qx + qy * qy - snd (qac_apply ROps (qac_rotation ROps theta phi dtheta dphi) qx qy) * snd (qac_apply ROps (qac_rotation ROps theta phi dtheta dphi) qx qy)).
  { unfold qac_apply. cbn [fst snd add mul sub opp ROps]. ring. }
  rewrite Hf, Hc. lra.
Qed.

(* I(-q) is evaluated at -(qa,qb,qc) *)
Theorem qabc_parity (r : qabc_rot (T:=R)) qx qy :
  qabc_apply ROps r (- qx) (- qy) =
  let q := qabc_apply ROps r qx qy in V3 (- v1 q) (- v2 q) (- v3 q).
Proof. destruct r. unfold_all. f_equal; ring. Qed.

(* rotating the detector point and phi by the same angle leaves (qa,qb,qc) unchanged *)
Theorem qabc_corotation (theta phi psi dtheta dphi dpsi alpha : csR) qx qy :
  unit alpha ->
  let phi' := CS (c_ phi * c_ alpha - s_ phi * s_ alpha) (s_ phi * c_ alpha + c_ phi * s_ alpha) in
  qabc_apply ROps (qabc_rotation ROps theta phi' psi dtheta dphi dpsi)
             (c_ alpha * qx - s_ alpha * qy) (s_ alpha * qx + c_ alpha * qy) =
  qabc_apply ROps (qabc_rotation ROps theta phi psi dtheta dphi dpsi) qx qy.
Proof.
  intros Ha phi'. rewrite !qabc_is_Rinv, !Rdoc_split, !transpose_mmul, !mapply_mmul. f_equal.
  rewrite !view_inv_apply. unfold phi'. destruct theta, phi, psi, alpha as [ca sa]. unfold unit in Ha. simpl in *.
  f_equal; match goal with |- ?L = ?R => transitivity (R * (ca * ca + sa * sa)); [ring | rewrite Ha; ring] end.
Qed.
