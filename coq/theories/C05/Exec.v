(* C05/Exec.v — binary64 evaluation of the rotation and of the jitter average *)
From Coq Require Import List PrimFloat Bool.
Import ListNotations.
From SM Require Import Base.Num C05.Model.

Definition csf := cs (T:=float).
(* one jitter mesh point: (dtheta, dphi, dpsi) as cos/sin pairs and the product of its distribution weights *)
Definition jpoint := (csf * csf * csf * float)%type.

Record Case := MkCase {
  k_sym : bool;                  (* true: symmetric shape (qab, qc); false: triaxial (qa, qb, qc) *)
  k_view : csf * csf * csf;      (* theta, phi, psi *)
  k_mesh : list jpoint;
  k_qx : float; k_qy : float;
  k_expect : list float          (* kernel output for the probes: [qa;qb;qc] or [qab;qc] *)
}.

Definition comps (c : Case) (j : jpoint) : list float :=
  let '(th, ph, ps) := k_view c in
  let '(dth, dph, dps, _) := j in
  if k_sym c then
    let r := qac_apply FOps (qac_rotation FOps th ph dth dph) (k_qx c) (k_qy c) in
    [ (if PrimFloat.ltb 0 (fst r) then PrimFloat.sqrt (fst r) else 0%float); snd r ]
  else
    let v := qabc_apply FOps (qabc_rotation FOps th ph ps dth dph dps) (k_qx c) (k_qy c) in
    [v1 v; v2 v; v3 v].

(* sum w |cos dtheta| X / sum w |cos dtheta| *)
Definition average (c : Case) : list float :=
  let n := if k_sym c then 2 else 3 in
  let wts := map (fun j => let '(dth, _, _, w) := j in PrimFloat.mul (PrimFloat.abs (c_ dth)) w) (k_mesh c) in
  let tot := fold_left PrimFloat.add wts 0%float in
  map (fun i => PrimFloat.div
         (fold_left PrimFloat.add (map (fun '(j, w) => PrimFloat.mul w (nth i (comps c j) nan)) (combine (k_mesh c) wts)) 0%float) tot)
      (seq 0 n).

Definition qnorm (c : Case) : float := PrimFloat.add (PrimFloat.abs (k_qx c)) (PrimFloat.abs (k_qy c)).

Definition check_case (rel : float) (c : Case) : bool :=
  let a := average c in
  all_close rel 0x1p-1000 (map (fun _ => qnorm c) a) a (k_expect c).

Definition check_cases (rel : float) (l : list Case) : list nat := failing (map (check_case rel) l).
