(* C05/Model.v — kernel_iq.c qac_rotation / qabc_rotation / *_apply, written
   over an arbitrary carrier from (cos, sin) pairs; and, independently, the
   elementary rotation matrices of doc/guide/orientation/orientation.rst. *)
From Coq Require Import List.
Import ListNotations.
From SM Require Import Base.Num.

Section Model.
  Context {T : Type} (O : Ops T).
  Notation "x + y" := (add O x y).
  Notation "x * y" := (mul O x y).
  Notation "x - y" := (sub O x y).
  Notation "- x" := (opp O x).

  Record cs := CS { c_ : T; s_ : T }.     (* cosine and sine of one angle *)
  Record vec3 := V3 { v1 : T; v2 : T; v3 : T }.
  Record mat3 := M3 { m11 : T; m12 : T; m13 : T; m21 : T; m22 : T; m23 : T; m31 : T; m32 : T; m33 : T }.

  (* ---- the documented convention ---- *)
  Definition Rx (a : cs) : mat3 := M3 (one O) (zero O) (zero O)  (zero O) (c_ a) (- s_ a)  (zero O) (s_ a) (c_ a).
  Definition Ry (a : cs) : mat3 := M3 (c_ a) (zero O) (s_ a)  (zero O) (one O) (zero O)  (- s_ a) (zero O) (c_ a).
  Definition Rz (a : cs) : mat3 := M3 (c_ a) (- s_ a) (zero O)  (s_ a) (c_ a) (zero O)  (zero O) (zero O) (one O).
  Definition mmul (A B : mat3) : mat3 :=
    M3 (m11 A * m11 B + m12 A * m21 B + m13 A * m31 B) (m11 A * m12 B + m12 A * m22 B + m13 A * m32 B) (m11 A * m13 B + m12 A * m23 B + m13 A * m33 B)
       (m21 A * m11 B + m22 A * m21 B + m23 A * m31 B) (m21 A * m12 B + m22 A * m22 B + m23 A * m32 B) (m21 A * m13 B + m22 A * m23 B + m23 A * m33 B)
       (m31 A * m11 B + m32 A * m21 B + m33 A * m31 B) (m31 A * m12 B + m32 A * m22 B + m33 A * m32 B) (m31 A * m13 B + m32 A * m23 B + m33 A * m33 B).
  Definition transpose (A : mat3) : mat3 :=
    M3 (m11 A) (m21 A) (m31 A) (m12 A) (m22 A) (m32 A) (m13 A) (m23 A) (m33 A).
  Definition mapply (A : mat3) (v : vec3) : vec3 :=
    V3 (m11 A * v1 v + m12 A * v2 v + m13 A * v3 v) (m21 A * v1 v + m22 A * v2 v + m23 A * v3 v) (m31 A * v1 v + m32 A * v2 v + m33 A * v3 v).
  (* R = Rz(phi) Ry(theta) Rz(psi) Rx(dphi) Ry(dtheta) Rz(dpsi) *)
  Definition Rdoc (theta phi psi dtheta dphi dpsi : cs) : mat3 :=
    mmul (Rz phi) (mmul (Ry theta) (mmul (Rz psi) (mmul (Rx dphi) (mmul (Ry dtheta) (Rz dpsi))))).

  (* ---- kernel_iq.c ---- *)
  Record qabc_rot := QABC { r11 : T; r12 : T; r21 : T; r22 : T; r31 : T; r32 : T }.
  Definition qabc_rotation (theta phi psi dtheta dphi dpsi : cs) : qabc_rot :=
    let V11 := - s_ phi * s_ psi + c_ phi * c_ psi * c_ theta in
    let V12 := s_ phi * c_ psi * c_ theta + s_ psi * c_ phi in
    let V21 := - s_ phi * c_ psi - s_ psi * c_ phi * c_ theta in
    let V22 := - s_ phi * s_ psi * c_ theta + c_ phi * c_ psi in
    let V31 := s_ theta * c_ phi in
    let V32 := s_ phi * s_ theta in
    let J11 := c_ dpsi * c_ dtheta in
    let J12 := s_ dphi * s_ dtheta * c_ dpsi + s_ dpsi * c_ dphi in
    let J13 := s_ dphi * s_ dpsi - s_ dtheta * c_ dphi * c_ dpsi in
    let J21 := - s_ dpsi * c_ dtheta in
    let J22 := - s_ dphi * s_ dpsi * s_ dtheta + c_ dphi * c_ dpsi in
    let J23 := s_ dphi * c_ dpsi + s_ dpsi * s_ dtheta * c_ dphi in
    let J31 := s_ dtheta in
    let J32 := - s_ dphi * c_ dtheta in
    let J33 := c_ dphi * c_ dtheta in
    QABC (J11 * V11 + J12 * V21 + J13 * V31) (J11 * V12 + J12 * V22 + J13 * V32)
         (J21 * V11 + J22 * V21 + J23 * V31) (J21 * V12 + J22 * V22 + J23 * V32)
         (J31 * V11 + J32 * V21 + J33 * V31) (J31 * V12 + J32 * V22 + J33 * V32).
  Definition qabc_apply (r : qabc_rot) (qx qy : T) : vec3 :=
    V3 (r11 r * qx + r12 r * qy) (r21 r * qx + r22 r * qy) (r31 r * qx + r32 r * qy).

  Definition qac_rotation (theta phi dtheta dphi : cs) : T * T :=
    let V11 := c_ phi * c_ theta in
    let V12 := s_ phi * c_ theta in
    let V21 := - s_ phi in
    let V22 := c_ phi in
    let V31 := s_ theta * c_ phi in
    let V32 := s_ phi * s_ theta in
    let J31 := s_ dtheta in
    let J32 := - s_ dphi * c_ dtheta in
    let J33 := c_ dphi * c_ dtheta in
    (J31 * V11 + J32 * V21 + J33 * V31, J31 * V12 + J32 * V22 + J33 * V32).
  (* returns (qab squared, qc): qab = sqrt of the first component when positive, else 0 *)
  Definition qac_apply (r : T * T) (qx qy : T) : T * T :=
    let dqc := fst r * qx + snd r * qy in
    (- (dqc * dqc) + qx * qx + qy * qy, dqc).
End Model.
