(* C05/Property.v — the property theorems and nothing else. *)
From Coq Require Import Reals.
From SM Require Import Base.Num C05.Model C05.Proofs Gen.C05_code C05.Translated.
Open Scope R_scope.

(* For ALL six angles (given as cosine/sine pairs, no trigonometric identity
   needed) and every detector point, the kernel's matrix applied to (qx,qy) is
   R^-1 (qx,qy,0) with R = Rz(phi) Ry(theta) Rz(psi) Rx(dphi) Ry(dtheta) Rz(dpsi). *)
Theorem C05_qabc_is_Rinv : forall (theta phi psi dtheta dphi dpsi : cs (T:=R)) qx qy,
  qabc_apply ROps (qabc_rotation ROps theta phi psi dtheta dphi dpsi) qx qy =
  mapply ROps (transpose (Rdoc ROps theta phi psi dtheta dphi dpsi)) (V3 qx qy 0).
Proof. exact qabc_is_Rinv. Qed.
Print Assumptions C05_qabc_is_Rinv.

(* the same with real angles *)
Theorem C05_qabc_angles : forall theta phi psi dtheta dphi dpsi qx qy : R,
  qabc_apply ROps (qabc_rotation ROps (of_angle theta) (of_angle phi) (of_angle psi)
                                      (of_angle dtheta) (of_angle dphi) (of_angle dpsi)) qx qy =
  mapply ROps (transpose (Rdoc ROps (of_angle theta) (of_angle phi) (of_angle psi)
                                    (of_angle dtheta) (of_angle dphi) (of_angle dpsi))) (V3 qx qy 0).
Proof. intros. apply qabc_is_Rinv. Qed.
Print Assumptions C05_qabc_angles.

Theorem C05_qac_qc : forall (theta phi dtheta dphi : cs (T:=R)) qx qy,
  snd (qac_apply ROps (qac_rotation ROps theta phi dtheta dphi) qx qy) =
  v3 (mapply ROps (transpose (Rdoc ROps theta phi cs0 dtheta dphi cs0)) (V3 qx qy 0)).
Proof. exact qac_is_Rinv. Qed.
Print Assumptions C05_qac_qc.

Theorem C05_qac_qab : forall (theta phi dtheta dphi : cs (T:=R)) qx qy,
  unit theta -> unit phi -> unit dtheta -> unit dphi ->
  let q := mapply ROps (transpose (Rdoc ROps theta phi cs0 dtheta dphi cs0)) (V3 qx qy 0) in
  fst (qac_apply ROps (qac_rotation ROps theta phi dtheta dphi) qx qy) = v1 q * v1 q + v2 q * v2 q.
Proof. exact qac_qab. Qed.
Print Assumptions C05_qac_qab.

Theorem C05_norm : forall (theta phi psi dtheta dphi dpsi : cs (T:=R)) qx qy,
  unit theta -> unit phi -> unit psi -> unit dtheta -> unit dphi -> unit dpsi ->
  norm2 (qabc_apply ROps (qabc_rotation ROps theta phi psi dtheta dphi dpsi) qx qy) = qx * qx + qy * qy.
Proof. exact qabc_norm. Qed.
Print Assumptions C05_norm.

Theorem C05_parity : forall (r : qabc_rot (T:=R)) qx qy,
  qabc_apply ROps r (- qx) (- qy) =
  let q := qabc_apply ROps r qx qy in V3 (- v1 q) (- v2 q) (- v3 q).
Proof. exact qabc_parity. Qed.
Print Assumptions C05_parity.

Theorem C05_corotation : forall (theta phi psi dtheta dphi dpsi alpha : cs (T:=R)) qx qy,
  unit alpha ->
  let phi' := CS (c_ phi * c_ alpha - s_ phi * s_ alpha) (s_ phi * c_ alpha + c_ phi * s_ alpha) in
  qabc_apply ROps (qabc_rotation ROps theta phi' psi dtheta dphi dpsi)
             (c_ alpha * qx - s_ alpha * qy) (s_ alpha * qx + c_ alpha * qy) =
  qabc_apply ROps (qabc_rotation ROps theta phi psi dtheta dphi dpsi) qx qy.
Proof. exact qabc_corotation. Qed.
Print Assumptions C05_corotation.

(* ---- the same statements about the TEXT of kernel_iq.c ----
   Gen/C05_code.v is regenerated on every run from the current kernel_iq.c by harness/ctrans.py
   (statement-by-statement translation of qac_rotation, qabc_rotation, qac_apply, qabc_apply);
   these theorems are therefore re-proved against what the code says now. *)
Theorem C05_code_qabc_is_Rinv : forall (theta phi psi dtheta dphi dpsi : cs (T:=R)) qx qy,
  code_qabc_apply ROps (code_qabc_rotation ROps theta phi psi dtheta dphi dpsi) qx qy =
  mapply ROps (transpose (Rdoc ROps theta phi psi dtheta dphi dpsi)) (V3 qx qy 0).
Proof. exact code_qabc_is_Rinv. Qed.
Print Assumptions C05_code_qabc_is_Rinv.

Theorem C05_code_qac_is_Rinv : forall (theta phi dtheta dphi : cs (T:=R)) qx qy,
  unit theta -> unit phi -> unit dtheta -> unit dphi ->
  let q := mapply ROps (transpose (Rdoc ROps theta phi cs0 dtheta dphi cs0)) (V3 qx qy 0) in
  code_qac_apply ROps sqrt (code_qac_rotation ROps theta phi dtheta dphi) qx qy =
  (qab_of (v1 q * v1 q + v2 q * v2 q), v3 q).
Proof. exact code_qac_is_Rinv. Qed.
Print Assumptions C05_code_qac_is_Rinv.

Theorem C05_code_is_model : forall (theta phi psi dtheta dphi dpsi : cs (T:=R)) (r : qabc_rot (T:=R)) (r2 : R * R) qx qy,
  code_qabc_rotation ROps theta phi psi dtheta dphi dpsi = qabc_rotation ROps theta phi psi dtheta dphi dpsi /\
  code_qac_rotation ROps theta phi dtheta dphi = qac_rotation ROps theta phi dtheta dphi /\
  code_qabc_apply ROps r qx qy = qabc_apply ROps r qx qy /\
  code_qac_apply ROps sqrt r2 qx qy = (qab_of (fst (qac_apply ROps r2 qx qy)), snd (qac_apply ROps r2 qx qy)).
Proof.
  intros. split; [apply code_qabc_rotation_is_model|].
  split; [apply code_qac_rotation_is_model|].
  split; [apply code_qabc_apply_is_model|apply code_qac_apply_is_model].
Qed.
Print Assumptions C05_code_is_model.

(* "each point weighted by its distribution weights times |cos(dtheta)|": the weight of a mesh point under the
   default (equirectangular) projection, READ from the APPLY_PROJECTION() macro of the current kernel_iq.c
   (Gen/C05_code.v; generate.PROJECTION = 1 is checked by the translator): the absolute value of the cosine of the
   jitter latitude times the product of the distribution weights - for every latitude, beyond +-90 degrees too, where
   the cosine itself is negative *)
Theorem C05_code_projection_weight : forall (dtheta : cs (T:=R)) w0,
  code_projection_weight ROps dtheta w0 = Rabs (c_ dtheta) * w0.
Proof. intros. unfold code_projection_weight. cbn [mul absv ROps]. ring. Qed.   (* [ring]: the order of the factors is free *)
Print Assumptions C05_code_projection_weight.
Theorem C05_code_projection_abs_cos : forall t w0,
  code_projection_weight ROps (CS (cos t) (sin t)) w0 = Rabs (cos t) * w0.
Proof. intros. rewrite C05_code_projection_weight. reflexivity. Qed.
Print Assumptions C05_code_projection_abs_cos.
Theorem C05_code_projection_nonneg : forall (dtheta : cs (T:=R)) w0, 0 <= w0 -> 0 <= code_projection_weight ROps dtheta w0.
Proof.
  intros dtheta w0 H. rewrite C05_code_projection_weight.
  apply Rmult_le_pos; [apply Rabs_pos | exact H].
Qed.
Print Assumptions C05_code_projection_nonneg.
(* a latitude and its mirror image beyond the pole (t and pi - t) carry the same weight *)
Theorem C05_code_projection_mirror : forall t w0,
  code_projection_weight ROps (CS (cos (PI - t)) (sin (PI - t))) w0 = code_projection_weight ROps (CS (cos t) (sin t)) w0.
Proof.
  intros. rewrite !C05_code_projection_abs_cos. replace (PI - t) with (- t + PI) by ring.
  rewrite neg_cos, cos_neg, Rabs_Ropp. reflexivity.
Qed.
Print Assumptions C05_code_projection_mirror.
