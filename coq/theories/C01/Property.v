(* C01/Property.v — the property theorems and nothing else. *)
From Coq Require Import List Arith Permutation Reals.
Import ListNotations.
From SM Require Import Base.Num Base.Mesh Base.Sums C01.Model C01.Proofs Gen.C01_code C01.Translated.

(* The value does not depend on how the mesh is split across successive kernel
   invocations, nor on what the result buffer held before: for every carrier
   (IEEE binary64 included), every consecutive partition of [0,N). *)
Theorem C01_chunk_independent :
  forall (T : Type) (O : Ops T) cutoff ks ns wt (leaf_at : env -> Leaf (T:=T)) c parts prev,
  Forall (fun n => 0 < n) ns -> covers 0 (prod ns) parts ->
  loop_component O cutoff ks ns wt leaf_at c parts prev =
  steps T (body O cutoff ks wt leaf_at c) ns 0 (prod ns) (zero O).
Proof. exact @loop_chunk_independent. Qed.
Print Assumptions C01_chunk_independent.

(* ... in particular for the 100-step driver of kerneldll (any step size > 0) *)
Theorem C01_dll_driver :
  forall (T : Type) (O : Ops T) cutoff ks ns wt (leaf_at : env -> Leaf (T:=T)) c prev size,
  0 < size -> Forall (fun n => 0 < n) ns ->
  loop_component O cutoff ks ns wt leaf_at c (chunks (prod ns) size) prev =
  steps T (body O cutoff ks wt leaf_at c) ns 0 (prod ns) (zero O).
Proof. exact @loop_dll_chunks. Qed.
Print Assumptions C01_dll_driver.

(* Every accumulated component (sum w, sum w V_form, sum w V_shell, sum w R_eff,
   sum w F^2(q_j), sum w F(q_j)) equals the sum over every point of the full
   mesh, in table order, of the qualifying contributions - whatever admissible
   slot assignment make_details picked and however the run was chunked. *)
Theorem C01_loop_is_mesh_sum :
  forall cutoff wt (leaf_at : env -> Leaf (T:=R)),
  (forall e e', (forall x, e x = e' x) -> leaf_at e = leaf_at e') ->
  forall ks ns lens triv c parts prev,
  length ks = length ns -> Forall (fun n => 0 < n) ns -> NoDup ks ->
  Permutation (table_dims lens) (triv ++ rev (combine ks ns)) ->
  Forall (fun d => snd d = 1 /\ wt (fst d) 0 = 1%R /\ ~ In (fst d) ks) triv ->
  covers 0 (prod ns) parts ->
  loop_component ROps cutoff ks ns wt leaf_at c parts prev =
  nsum R 0%R Rplus (table_dims lens) (spec_term ROps cutoff wt leaf_at lens c) e0.
Proof. exact loop_is_mesh_sum. Qed.
Print Assumptions C01_loop_is_mesh_sum.

(* the executable specification used by the correspondence check is that sum *)
Theorem C01_spec_is_mesh_sum :
  forall cutoff wt (leaf_at : env -> Leaf (T:=R)),
  (forall e e', (forall x, e x = e' x) -> leaf_at e = leaf_at e') ->
  forall lens c, Forall (fun n => 0 < n) lens ->
  spec_component ROps cutoff wt leaf_at lens c =
  nsum R 0%R Rplus (table_dims lens) (spec_term ROps cutoff wt leaf_at lens c) e0.
Proof. exact spec_component_is_mesh_sum. Qed.
Print Assumptions C01_spec_is_mesh_sum.

(* I_j = scale * sum(w F^2_j) / sum(w V_shell) + background *)
Theorem C01_intensity :
  forall scale bg (s : Sums (T:=R)) j, s_norm s <> 0%R -> s_shell s <> 0%R ->
  nth j (intensity ROps scale bg s) 0%R =
  if j <? length (s_f2 s) then (scale * nth j (s_f2 s) 0 / s_shell s + bg)%R else 0%R.
Proof. exact intensity_formula. Qed.
Print Assumptions C01_intensity.

(* a mesh with no qualifying point accumulates nothing ... *)
Theorem C01_empty_sums :
  forall cutoff wt (leaf_at : env -> Leaf (T:=R)) lens c,
  (forall e, let lf := leaf_at e in
     lvalid lf = false \/ ~ (cutoff < lproj lf * wprod_table ROps wt 0 lens e)%R) ->
  nsum R 0%R Rplus (table_dims lens) (spec_term ROps cutoff wt leaf_at lens c) e0 = 0%R.
Proof. exact nsum_no_qualifying. Qed.
Print Assumptions C01_empty_sums.

(* ... and then the intensity is the background *)
Theorem C01_empty_background :
  forall scale bg (s : Sums (T:=R)) j,
  s_norm s = 0%R -> s_shell s = 0%R -> Forall (fun x => x = 0%R) (s_f2 s) ->
  j < length (s_f2 s) -> nth j (intensity ROps scale bg s) 0%R = bg.
Proof. exact intensity_empty. Qed.
Print Assumptions C01_empty_background.

(* ---- the normalisation as it is WRITTEN in kernel.py ----
   Gen/C01_code.v is regenerated on every run from the text of Kernel.Fq and Kernel.Iq (Python-ast translation);
   the translated functions are the model's for every number type, so the two theorems above speak about the code:
   I_j = scale * sum(w F^2_j) / sum(w V_shell) + background, and the background for a mesh with no qualifying point. *)
Theorem C01_code_normalisation : forall (T : Type) (O : Ops T) scale bg (s : Sums (T:=T)),
  code_normalise O s = normalise O s /\ code_intensity O scale bg s = intensity O scale bg s.
Proof. intros. split; [apply code_normalise_is_model | apply code_intensity_is_model]. Qed.
Print Assumptions C01_code_normalisation.

Theorem C01_code_intensity :
  forall scale bg (s : Sums (T:=R)) j, s_norm s <> 0%R -> s_shell s <> 0%R ->
  nth j (code_intensity ROps scale bg s) 0%R =
  if j <? length (s_f2 s) then (scale * nth j (s_f2 s) 0 / s_shell s + bg)%R else 0%R.
Proof. intros. rewrite code_intensity_is_model. apply intensity_formula; assumption. Qed.
Print Assumptions C01_code_intensity.

(* "asking for more simultaneously dispersed parameters than the model supports is refused with an error instead of
   being truncated": make_details refuses exactly when more than max_pd distributions have more than one point, and
   when it accepts, EVERY such distribution has a loop slot carrying its own length - for every table of lengths *)
From SM Require Import C01.Details Gen.C01_details C01.Translated.
Theorem C01_refused_iff_too_many : forall max_pd lens, make_details max_pd lens = TooMany <-> max_pd < num_active lens.
Proof. exact make_details_refuses. Qed.
Print Assumptions C01_refused_iff_too_many.
Theorem C01_never_truncated : forall max_pd lens ks ns, make_details max_pd lens = Slots ks ns ->
  forall i, i < length lens -> 1 < nth i lens 0 -> In (i, nth i lens 0) (combine ks ns).
Proof. exact make_details_selects_all_active. Qed.
Print Assumptions C01_never_truncated.
(* ... and that is what the CODE does: details.make_details translated from the current text *)
Theorem C01_code_make_details : details_translated = true -> forall max_pd lens,
  (if code_refuses max_pd lens then TooMany
   else Slots (map fst (code_selection max_pd lens)) (map snd (code_selection max_pd lens))) = make_details max_pd lens.
Proof. exact code_make_details_is_model. Qed.
Print Assumptions C01_code_make_details.

(* the loop nest whose sums the theorems above describe is the one kernel_iq.c builds: its skeleton, read from the
   current text on every run, is one well-nested stack of levels n-1 .. 0, closed in reverse order *)
From SM Require Import Gen.C01_loop.
Theorem C01_code_loop_nest : loop_translated = true ->
  code_open_order = rev (seq 0 (length code_open_order)) /\
  code_close_order = rev code_open_order /\
  code_init_order = code_open_order.
Proof. exact code_loop_nest_is_model. Qed.
Print Assumptions C01_code_loop_nest.
