(* C01/Translated.v — Kernel.Fq / Kernel.Iq as regenerated from the text of kernel.py (Gen/C01_code.v) are the
   model's normalise / intensity, for EVERY number type (binary64 included): no algebraic law is used. *)
From Coq Require Import List Reals.
Import ListNotations.
From SM Require Import Base.Num C01.Model C01.Proofs Gen.C01_code Gen.C01_details Gen.C01_loop.

Theorem code_normalise_is_model (T : Type) (O : Ops T) (s : Sums (T:=T)) : code_normalise O s = normalise O s.
Proof. reflexivity. Qed.

Theorem code_intensity_is_model (T : Type) (O : Ops T) scale bg (s : Sums (T:=T)) :
  code_intensity O scale bg s = intensity O scale bg s.
Proof.
  unfold code_intensity, intensity. try rewrite code_normalise_is_model.
  first [ reflexivity | rewrite map_map; reflexivity ].
Qed.

(* details.make_details as regenerated from the text of details.py (Gen/C01_details.v): the count of active
   distributions, the refusal test - which stands before the selection is cut to max_pd entries - and the selection
   are the model's *)
Theorem code_make_details_is_model : details_translated = true -> forall max_pd lens,
  (if code_refuses max_pd lens then TooMany
   else Slots (map fst (code_selection max_pd lens)) (map snd (code_selection max_pd lens))) = make_details max_pd lens.
Proof. intros Ht. try solve [vm_compute in Ht; discriminate Ht]. all: reflexivity. Qed.

(* the skeleton of the dispersity loop nest as read from kernel_iq.c (Gen/C01_loop.v; the three macro bodies are
   compared with their expected text by the translator): the levels form one well-nested stack - opened from the
   outermost level n-1 down to 0 without a gap, each inside the next higher one, closed in the reverse order, their
   loop variables initialised in the order they are opened - which is the nest the model's odometer (index 0
   fastest) describes *)
Theorem code_loop_nest_is_model : loop_translated = true ->
  code_open_order = rev (seq 0 (length code_open_order)) /\
  code_close_order = rev code_open_order /\
  code_init_order = code_open_order.
Proof. intros Ht. try solve [vm_compute in Ht; discriminate Ht]. all: repeat split; reflexivity. Qed.
