(* C01/Translated.v — Kernel.Fq / Kernel.Iq as regenerated from the text of kernel.py (Gen/C01_code.v) are the
   model's normalise / intensity, for EVERY number type (binary64 included): no algebraic law is used. *)
From Coq Require Import List Reals.
Import ListNotations.
From SM Require Import Base.Num C01.Model C01.Proofs Gen.C01_code.

Theorem code_normalise_is_model (T : Type) (O : Ops T) (s : Sums (T:=T)) : code_normalise O s = normalise O s.
Proof. reflexivity. Qed.

Theorem code_intensity_is_model (T : Type) (O : Ops T) scale bg (s : Sums (T:=T)) :
  code_intensity O scale bg s = intensity O scale bg s.
Proof.
  unfold code_intensity, intensity. try rewrite code_normalise_is_model.
  first [ reflexivity | rewrite map_map; reflexivity ].
Qed.
