(* C01/Proofs.v — lemmas about C01/Model.v *)
From Coq Require Import List Arith Bool Lia Permutation Reals Lra.
Import ListNotations.
From SM Require Import Base.Num Base.Mesh Base.Sums C01.Model.


Lemma nth_map_lt {A B} (f : A -> B) l j d d' : j < length l -> nth j (map f l) d = f (nth j l d').
Proof. revert j; induction l as [|a l IH]; intros [|j] H; simpl in *; try lia; auto. apply IH; lia. Qed.

Lemma combine_seq_fst_ge : forall (l : list nat) q x,
  In x (map fst (combine (seq q (length l)) l)) -> q <= x.
Proof.
  induction l as [|a l IHl]; intros q x Hx; simpl in *; [contradiction|].
  destruct Hx as [<-|Hx]; [lia|]. apply IHl in Hx. lia.
Qed.

Lemma table_dims_nodup lens : NoDup (map fst (table_dims lens)).
Proof.
  unfold table_dims. generalize 0. induction lens as [|n r IH]; intros p; simpl.
  - constructor.
  - constructor; [|apply IH]. intros Hin. apply combine_seq_fst_ge in Hin. lia.
Qed.

(* ------------------------------------------------------------------ *)
(* 1. chunk independence, for every carrier (binary64 included)       *)
Section Generic.
  Context {T : Type} (O : Ops T).
  Variables (cutoff : T) (ks ns : list nat) (wt : nat -> nat -> T) (leaf_at : env -> Leaf (T:=T)).

  Lemma loop_chunk_independent c parts prev :
    Forall (fun n => 0 < n) ns -> covers 0 (prod ns) parts ->
    loop_component O cutoff ks ns wt leaf_at c parts prev =
    steps T (body O cutoff ks wt leaf_at c) ns 0 (prod ns) (zero O).
  Proof. intros. unfold loop_component. apply run_chunks_independent; auto. Qed.

  Lemma loop_dll_chunks c prev size : 0 < size ->
    Forall (fun n => 0 < n) ns ->
    loop_component O cutoff ks ns wt leaf_at c (chunks (prod ns) size) prev =
    steps T (body O cutoff ks wt leaf_at c) ns 0 (prod ns) (zero O).
  Proof. intros. apply loop_chunk_independent; auto. apply chunks_cover; auto. Qed.
End Generic.

(* ------------------------------------------------------------------ *)
(* 2. over the reals: the loop is the sum over the full mesh           *)
Section Real.
  Open Scope R_scope.
  Variables (cutoff : R) (wt : nat -> nat -> R) (leaf_at : env -> Leaf (T:=R)).
  Hypothesis leaf_ext : forall e e', (forall x, e x = e' x) -> leaf_at e = leaf_at e'.

  Notation bsumR := (bsum R 0 Rplus).
  Notation nsumR := (nsum R 0 Rplus).

  Local Lemma Rc a b : a + b = b + a. Proof. ring. Qed.
  Local Lemma Ra a b c : a + (b + c) = a + b + c. Proof. ring. Qed.
  Local Lemma R0 a : 0 + a = a. Proof. ring. Qed.

  (* product of the weights selected by e over a list of dimensions *)
  Fixpoint wprodD (D : list (nat * nat)) (e : env) : R :=
    match D with [] => 1 | (p, _) :: r => wt p (e p) * wprodD r e end.

  Lemma wprodD_perm D D' e : Permutation D D' -> wprodD D e = wprodD D' e.
  Proof.
    induction 1 as [| [p n] l l' _ IH | [p n] [p' n'] l | l l' l'' _ IH1 _ IH2]; simpl; auto.
    - rewrite IH; auto.
    - ring.
    - congruence.
  Qed.

  Lemma wprodD_app D D' e : wprodD (D ++ D') e = wprodD D e * wprodD D' e.
  Proof. induction D as [|[p n] D IH]; simpl; [ring|]. rewrite IH; ring. Qed.

  Lemma wprod_table_D lens : forall p e,
    wprod_table ROps wt p lens e = wprodD (combine (seq p (length lens)) lens) e.
  Proof. induction lens as [|n r IH]; intros p e; simpl; auto. rewrite IH. reflexivity. Qed.

  Lemma bind_notin ks : forall idx e p, ~ In p ks -> bind ks idx e p = e p.
  Proof.
    induction ks as [|k ks IH]; intros [|i idx] e p Hn; simpl; auto.
    unfold upd. destruct (Nat.eqb_spec p k); [subst; exfalso; apply Hn; left; auto|].
    apply IH. intros H; apply Hn; right; auto.
  Qed.

  Lemma wprodD_slots ks : forall ns idx, NoDup ks -> length ks = length ns ->
    length idx = length ks ->
    wprodD (combine ks ns) (bind ks idx e0) = wprod ROps wt ks idx.
  Proof.
    induction ks as [|k ks IH]; intros [|n ns] [|i idx] Hnd Hl1 Hl2; simpl in *; try lia; auto.
    inversion Hnd as [|? ? Hnotin Hnd']; subst.
    unfold upd at 1. rewrite Nat.eqb_refl. f_equal.
    rewrite <- (IH ns idx) by (auto; lia).
    (* the extra binding of k does not matter for the remaining slots *)
    clear IH. assert (Hgen : forall (D : list (nat*nat)) e e',
      (forall p, In p (map fst D) -> e p = e' p) -> wprodD D e = wprodD D e').
    { induction D as [|[p m] D IHD]; intros e e' He; simpl; auto.
      rewrite (He p) by (left; auto). f_equal. apply IHD. intros; apply He; right; auto. }
    apply Hgen. intros p Hp. unfold upd.
    destruct (Nat.eqb_spec p k); auto. subst. exfalso. apply Hnotin.
    assert (Hin : forall (a:list nat) (b:list nat) x, In x (map fst (combine a b)) -> In x a).
    { induction a as [|a0 a IHa]; intros [|b0 b] x Hx; simpl in *; auto; try contradiction.
      destruct Hx; auto. right. eapply IHa; eauto. }
    eapply Hin; eauto.
  Qed.

  Lemma wprodD_triv triv ks idx :
    Forall (fun d => snd d = 1%nat /\ wt (fst d) 0 = 1 /\ ~ In (fst d) ks) triv ->
    wprodD triv (bind ks idx e0) = 1.
  Proof.
    induction 1 as [|[p n] t [Hn [Hw Hni]] _ IH]; simpl in *; auto.
    rewrite IH. rewrite bind_notin by auto. unfold e0. rewrite Hw. ring.
  Qed.

  Lemma fext_spec_term lens c : fext R (spec_term ROps cutoff wt leaf_at lens c).
  Proof.
    intros e e' H. unfold spec_term. rewrite (leaf_ext e e' H). f_equal.
    generalize 0%nat. induction lens as [|n r IH]; intros p; simpl; auto.
    rewrite H, IH. reflexivity.
  Qed.

  (* the accumulating sweep is a sum *)
  Lemma steps_is_bsum ks ns c :
    steps R (body ROps cutoff ks wt leaf_at c) ns 0 (prod ns) 0 =
    bsumR (prod ns) (fun t => term ROps cutoff (wprod ROps wt ks (decode ns t))
                                   (leaf_at (bind ks (decode ns t) e0)) c).
  Proof.
    unfold steps, body. cbn [add ROps].
    rewrite (fold_seq_bsum R 0 Rplus Rc Ra R0
      (fun t => term ROps cutoff (wprod ROps wt ks (decode ns t))
                     (leaf_at (bind ks (decode ns t) e0)) c)).
    apply R0.
  Qed.

  (* Main lemma: the C loop nest over any admissible slot assignment equals
     the sum over the full parameter mesh in table order. *)
  Theorem loop_is_mesh_sum ks ns lens triv c parts prev :
    length ks = length ns -> Forall (fun n => (0 < n)%nat) ns -> NoDup ks ->
    Permutation (table_dims lens) (triv ++ rev (combine ks ns)) ->
    Forall (fun d => snd d = 1%nat /\ wt (fst d) 0 = 1 /\ ~ In (fst d) ks) triv ->
    covers 0 (prod ns) parts ->
    loop_component ROps cutoff ks ns wt leaf_at c parts prev =
    nsumR (table_dims lens) (spec_term ROps cutoff wt leaf_at lens c) e0.
  Proof.
    intros Hlen Hpos Hnd Hperm Htriv Hcov.
    rewrite loop_chunk_independent by auto. cbn [zero ROps].
    rewrite steps_is_bsum.
    pose proof (table_dims_nodup lens) as Hkeys.
    rewrite <- (box_is_mesh_sum R 0 Rplus Rc Ra R0 ks ns triv (table_dims lens)
                 (spec_term ROps cutoff wt leaf_at lens c) e0); auto.
    - apply bsum_ext. intros t _. unfold spec_term. f_equal.
      rewrite wprod_table_D. fold (table_dims lens).
      rewrite (wprodD_perm _ _ _ Hperm), wprodD_app.
      rewrite (wprodD_triv triv ks) by auto.
      rewrite <- (wprodD_perm (combine ks ns) _ _ (Permutation_rev _)).
      rewrite wprodD_slots by (auto; rewrite decode_length; auto). ring.
    - eapply Forall_impl; [|exact Htriv]. intros [p n] [H1 [_ _]]. split; auto.
    - apply fext_spec_term.
  Qed.

  (* the executable enumeration of the specification is the same sum *)
  Lemma rev_combine {A B} (a : list A) : forall (b : list B), length a = length b ->
    rev (combine a b) = combine (rev a) (rev b).
  Proof.
    induction a as [|x a IH]; intros [|y b] Hl; simpl in *; try lia; auto.
    rewrite IH by lia. clear IH.
    assert (Hc : forall (u : list A) (v : list B) x y, length u = length v ->
              combine (u ++ [x]) (v ++ [y]) = combine u v ++ [(x, y)]).
    { induction u as [|u0 u IHu]; intros [|v0 v] x' y' H; simpl in *; try lia; auto.
      rewrite IHu by lia. reflexivity. }
    rewrite Hc by (rewrite !rev_length; lia). reflexivity.
  Qed.

  Theorem spec_component_is_mesh_sum lens c :
    Forall (fun n => (0 < n)%nat) lens ->
    spec_component ROps cutoff wt leaf_at lens c =
    nsumR (table_dims lens) (spec_term ROps cutoff wt leaf_at lens c) e0.
  Proof.
    intros Hpos. unfold spec_component. cbn [add zero ROps].
    rewrite (fold_seq_bsum R 0 Rplus Rc Ra R0
      (fun t => spec_term ROps cutoff wt leaf_at lens c
                 (bind (rev (seq 0 (length lens))) (decode (rev lens) t) e0))).
    rewrite R0.
    apply (box_is_mesh_sum R 0 Rplus Rc Ra R0 (rev (seq 0 (length lens))) (rev lens) []
             (table_dims lens)); auto.
    - rewrite !rev_length, seq_length. reflexivity.
    - apply Forall_rev; auto.
    - apply table_dims_nodup.
    - simpl. rewrite <- rev_combine by (rewrite seq_length; auto).
      rewrite rev_involutive. apply Permutation_refl.
    - apply fext_spec_term.
  Qed.

  (* ---- kernel.py normalisation ---- *)
  Lemma intensity_formula scale bg (s : Sums (T:=R)) j :
    s_norm s <> 0 -> s_shell s <> 0 ->
    nth j (intensity ROps scale bg s) 0 =
    if (j <? length (s_f2 s))%nat then scale * nth j (s_f2 s) 0 / s_shell s + bg else 0.
  Proof.
    intros Hn Hs. unfold intensity, normalise. cbn [eqb ROps zero one div add mul o_shell o_f2].
    destruct (Reqb (s_norm s) 0) eqn:E1; [apply Reqb_true in E1; contradiction|].
    assert (Hq : s_shell s / s_norm s <> 0).
    { unfold Rdiv. apply Rmult_integral_contrapositive_currified; auto.
      apply Rinv_neq_0_compat; auto. }
    destruct (Reqb (s_shell s / s_norm s) 0) eqn:E2; [apply Reqb_true in E2; contradiction|].
    rewrite map_map.
    destruct (Nat.ltb_spec j (length (s_f2 s))) as [Hlt|Hge].
    - rewrite (nth_map_lt _ _ _ _ 0) by auto. field. split; auto.
    - apply nth_overflow. rewrite map_length. auto.
  Qed.

  Lemma intensity_empty scale bg (s : Sums (T:=R)) j :
    s_norm s = 0 -> s_shell s = 0 -> Forall (fun x => x = 0) (s_f2 s) ->
    (j < length (s_f2 s))%nat -> nth j (intensity ROps scale bg s) 0 = bg.
  Proof.
    intros Hn Hs Hz Hj. unfold intensity, normalise. cbn [eqb ROps zero one div add mul o_shell o_f2].
    rewrite Hn, Hs.
    replace (Reqb 0 0) with true by (symmetry; apply Reqb_true; auto).
    replace (Reqb (0 / 1) 0) with true by (symmetry; apply Reqb_true; field).
    rewrite map_map.
    rewrite (nth_map_lt _ _ _ _ 0) by auto.
    assert (nth j (s_f2 s) 0 = 0).
    { rewrite Forall_forall in Hz. apply Hz. apply nth_In; auto. }
    rewrite H. field.
  Qed.

  (* no qualifying point => every accumulated component is zero *)
  Lemma nsum_no_qualifying lens c :
    (forall e, let lf := leaf_at e in
       lvalid lf = false \/ ~ (cutoff < lproj lf * wprod_table ROps wt 0 lens e)) ->
    nsumR (table_dims lens) (spec_term ROps cutoff wt leaf_at lens c) e0 = 0.
  Proof.
    intros Hq. generalize e0. generalize (table_dims lens) as D.
    induction D as [|[k n] D IH]; intros e; simpl.
    - unfold spec_term, term. specialize (Hq e). simpl in Hq.
      destruct Hq as [Hv|Hc]; [rewrite Hv; reflexivity|].
      destruct (lvalid (leaf_at e)); auto. cbn [ltb mul ROps zero].
      destruct (Rltb cutoff _) eqn:E; auto. apply Rltb_true in E. contradiction.
    - rewrite (bsum_ext R 0 Rplus n _ (fun _ => 0)) by (intros; apply IH).
      apply bsum_zero. apply R0.
  Qed.
End Real.
