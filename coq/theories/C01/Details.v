(* C01/Details.v — details.make_details: which parameters get a dispersity loop.
   "Asking for more simultaneously dispersed parameters than the model supports is refused instead of being
   truncated": the call is refused exactly when more than max_pd distributions have more than one point, and when
   it is not refused EVERY such distribution gets a loop slot (the selection is the max_pd longest, and the active
   ones come first in that order). *)
From Coq Require Import List Arith Bool Lia Permutation.
Import ListNotations.
From SM Require Import Base.Num C01.Model.

Definition act (x : nat * nat) : bool := 1 <? snd x.
Fixpoint count {A} (f : A -> bool) (l : list A) : nat :=
  match l with [] => 0 | x :: r => (if f x then 1 else 0) + count f r end.

Lemma count_filter {A} (f : A -> bool) l : count f l = length (filter f l).
Proof. induction l as [|x r IH]; simpl; [reflexivity|]. destruct (f x); simpl; lia. Qed.

(* descending in the length component *)
Fixpoint desc (l : list (nat * nat)) : Prop :=
  match l with [] => True | x :: r => (forall y, In y r -> snd y <= snd x) /\ desc r end.

Lemma insert_desc_perm x l : Permutation (insert_desc x l) (x :: l).
Proof.
  induction l as [|y r IH]; simpl; [apply Permutation_refl|].
  destruct (snd y <? snd x); [apply Permutation_refl|].
  destruct ((snd y =? snd x) && (fst y <? fst x)); [apply Permutation_refl|].
  eapply Permutation_trans; [apply perm_skip; exact IH|apply perm_swap].
Qed.

Lemma sort_desc_perm l : Permutation (sort_desc l) l.
Proof.
  induction l as [|x r IH]; simpl; [apply Permutation_refl|].
  eapply Permutation_trans; [apply insert_desc_perm|apply perm_skip; exact IH].
Qed.

Lemma insert_desc_desc x l : desc l -> desc (insert_desc x l).
Proof.
  induction l as [|y r IH]; intros Hd; simpl.
  - split; [intros z []|exact I].
  - destruct Hd as [Hy Hr].
    destruct (snd y <? snd x) eqn:E1.
    + apply Nat.ltb_lt in E1. split; [|split; assumption].
      intros z [<-|Hz]; [lia|specialize (Hy z Hz); lia].
    + apply Nat.ltb_ge in E1.
      destruct ((snd y =? snd x) && (fst y <? fst x)) eqn:E2.
      * apply andb_true_iff in E2. destruct E2 as [E2 _]. apply Nat.eqb_eq in E2.
        split; [|split; assumption]. intros z [<-|Hz]; [lia|specialize (Hy z Hz); lia].
      * split; [|apply IH; exact Hr].
        intros z Hz. apply (Permutation_in _ (insert_desc_perm x r)) in Hz.
        destruct Hz as [<-|Hz]; [lia|apply Hy; exact Hz].
Qed.

Lemma sort_desc_desc l : desc (sort_desc l).
Proof. induction l as [|x r IH]; simpl; [exact I|apply insert_desc_desc; exact IH]. Qed.

Lemma count_perm {A} (f : A -> bool) l l' : Permutation l l' -> count f l = count f l'.
Proof. induction 1; simpl; try lia. Qed.

(* in a descending list the active entries are a prefix *)
Lemma active_in_prefix : forall l k, desc l -> count act l <= k ->
  forall x, In x l -> act x = true -> In x (firstn k l).
Proof.
  induction l as [|y r IH]; intros k Hd Hc x Hin Hx; [destruct Hin|].
  destruct Hd as [Hy Hr]. simpl in Hc.
  destruct k as [|k'].
  - exfalso. destruct Hin as [<-|Hin].
    + rewrite Hx in Hc. lia.
    + assert (act y = true).
      { unfold act in *. apply Nat.ltb_lt in Hx. apply Nat.ltb_lt. specialize (Hy x Hin). lia. }
      rewrite H in Hc. lia.
  - simpl. destruct Hin as [<-|Hin]; [left; reflexivity|right].
    apply IH; auto.
    destruct (act y) eqn:Ey; [lia|].
    exfalso. unfold act in *. apply Nat.ltb_ge in Ey. apply Nat.ltb_lt in Hx. specialize (Hy x Hin). lia.
Qed.

Lemma map_snd_combine_seq : forall (lens : list nat) s, map snd (combine (seq s (length lens)) lens) = lens.
Proof. induction lens as [|x r IH]; intros s; simpl; [reflexivity|]. now rewrite IH. Qed.

Lemma count_act_combine (lens : list nat) s : count act (combine (seq s (length lens)) lens) = num_active lens.
Proof.
  unfold num_active. revert s. induction lens as [|x r IH]; intros s; simpl; [reflexivity|].
  unfold act at 1. simpl. rewrite IH. destruct (1 <? x); simpl; lia.
Qed.

Lemma in_combine_seq : forall (lens : list nat) s i, i < length lens -> In (s + i, nth i lens 0) (combine (seq s (length lens)) lens).
Proof.
  induction lens as [|x r IH]; intros s i Hi; simpl in *; [lia|].
  destruct i as [|i']; [left; f_equal; lia|right].
  replace (s + S i') with (S s + i') by lia. apply IH. lia.
Qed.

(* refused exactly when too many distributions are active *)
Theorem make_details_refuses max_pd lens : make_details max_pd lens = TooMany <-> max_pd < num_active lens.
Proof.
  unfold make_details. destruct (max_pd <? num_active lens) eqn:E.
  - apply Nat.ltb_lt in E. split; auto.
  - apply Nat.ltb_ge in E. split; [discriminate|lia].
Qed.

(* never truncated: when the call is accepted every active distribution has a slot, with its own length *)
Theorem make_details_selects_all_active max_pd lens ks ns :
  make_details max_pd lens = Slots ks ns ->
  forall i, i < length lens -> 1 < nth i lens 0 ->
  In (i, nth i lens 0) (combine ks ns).
Proof.
  unfold make_details. destruct (max_pd <? num_active lens) eqn:E; [discriminate|].
  apply Nat.ltb_ge in E. intros H i Hi Hact. inversion H; subst ks ns; clear H.
  set (l := combine (seq 0 (length lens)) lens) in *.
  set (S := sort_desc l).
  assert (Hin : In (i, nth i lens 0) (firstn max_pd S)).
  { apply active_in_prefix.
    - apply sort_desc_desc.
    - unfold S. rewrite (count_perm act _ _ (sort_desc_perm l)). unfold l. rewrite count_act_combine. exact E.
    - unfold S. apply (Permutation_in _ (Permutation_sym (sort_desc_perm l))). unfold l.
      exact (in_combine_seq lens 0 i Hi).
    - unfold act. simpl. apply Nat.ltb_lt. exact Hact. }
  clearbody S. revert Hin. generalize (firstn max_pd S). intros sel Hin.
  induction sel as [|[a b] r IH]; [destruct Hin|]. simpl.
  destruct Hin as [Heq|Hin]; [left; exact Heq|right; apply IH; exact Hin].
Qed.
