(* C01/Model.v — executable model of the dispersity average.
   details.make_details / make_kernel_args  ->  [select_slots], [prepare_scalar]
   kernel_iq.c loop nest                    ->  [loop_component] (via Base.Mesh.cloop)
   kerneldll 100-step driver                ->  Base.Mesh.chunks
   kernel.py Fq / Iq                        ->  [normalise], [intensity]
   the property's formula                   ->  [spec_component]
   Definitions only; proofs are in Proofs.v. *)
From Coq Require Import List Arith Bool.
Import ListNotations.
From SM Require Import Base.Num Base.Mesh Base.Sums.

Section Model.
  Context {T : Type} (O : Ops T).

  (* What the model's own C functions return at one mesh point.
     lcomp = [1; V_form; V_shell; R_eff; F2(q_0) .. F2(q_{nq-1}); F1(q_0) ..] *)
  Record Leaf := MkLeaf { lvalid : bool; lproj : T; lcomp : list T }.

  Variable cutoff : T.

  (* contribution of one mesh point to accumulator component c:
       if (VALID) { weight = proj*weight0; if (weight > cutoff) acc += weight*X; } *)
  Definition term (w0 : T) (lf : Leaf) (c : nat) : T :=
    if lvalid lf then
      let w := mul O (lproj lf) w0 in
      if ltb O cutoff w then mul O w (nth c (lcomp lf) (zero O)) else zero O
    else zero O.

  (* ---- the C loop nest over the slots ---- *)
  Variable ks : list nat.            (* pd_par: parameter number of each slot  *)
  Variable ns : list nat.            (* pd_length of each slot                 *)
  Variable wt : nat -> nat -> T.     (* weight of distribution point i of parameter p *)
  Variable leaf_at : env -> Leaf.    (* the model at the mesh point selected by env *)

  (* weight0 = w_0[i_0] * (w_1[i_1] * ( ... * 1.0))   (PD_OPEN, outermost weight 1.0) *)
  Fixpoint wprod (ks idx : list nat) : T :=
    match ks, idx with
    | k :: ks', i :: idx' => mul O (wt k i) (wprod ks' idx')
    | _, _ => one O
    end.

  Definition e0 : env := fun _ => 0.

  Definition body (c : nat) (idx : list nat) (acc : T) : T :=
    add O acc (term (wprod ks idx) (leaf_at (bind ks idx e0)) c).

  (* result slot c after the given sequence of kernel invocations, starting
     from an arbitrary previous buffer content [prev] *)
  Definition loop_component (c : nat) (parts : list (nat * nat)) (prev : T) : T :=
    run_chunks T (body c) (fun _ => zero O) ns parts prev.

  (* ---- the property's formula: sum over the full mesh in table order ---- *)
  Variable lens : list nat.          (* distribution length of every parameter, table order *)

  Definition table_dims : list (nat * nat) := combine (seq 0 (length lens)) lens.

  Fixpoint wprod_table (p : nat) (lens : list nat) (e : env) : T :=
    match lens with
    | [] => one O
    | _ :: r => mul O (wt p (e p)) (wprod_table (S p) r e)
    end.

  Definition spec_term (c : nat) (e : env) : T :=
    term (wprod_table 0 lens e) (leaf_at e) c.

  (* executable enumeration: last parameter fastest *)
  Definition spec_component (c : nat) : T :=
    let rl := rev lens in
    let rk := rev (seq 0 (length lens)) in
    fold_left (fun acc t => add O acc (spec_term c (bind rk (decode rl t) e0)))
              (seq 0 (prod rl)) (zero O).

  (* ---- kernel.py: Fq and Iq ---- *)
  Record Sums := MkSums { s_norm : T; s_form : T; s_shell : T; s_rad : T;
                          s_f2 : list T; s_f1 : list T }.
  Record FqOut := MkFq { o_f1 : list T; o_f2 : list T; o_reff : T; o_shell : T; o_ratio : T }.

  Definition normalise (s : Sums) : FqOut :=
    let tw := if eqb O (s_norm s) (zero O) then one O else s_norm s in
    let form := div O (s_form s) tw in
    let shell0 := div O (s_shell s) tw in
    let rad := div O (s_rad s) tw in
    let shell := if eqb O shell0 (zero O) then one O else shell0 in
    MkFq (map (fun x => div O x tw) (s_f1 s)) (map (fun x => div O x tw) (s_f2 s))
         rad shell (div O form shell).

  Definition intensity (scale background : T) (s : Sums) : list T :=
    let o := normalise s in
    map (fun x => add O (mul O (div O scale (o_shell o)) x) background) (o_f2 o).
End Model.

(* ---- details.make_details: which parameters get a loop ---- *)
Definition num_active (lens : list nat) : nat := length (filter (fun n => 1 <? n) lens).

Inductive layout := TooMany | Slots (ks ns : list nat).

(* insertion of (len, idx) keeping descending length; ties keep the later
   index first, as argsort(...)[::-1] of a stable ascending sort does.  The
   tie-break is not part of any statement below: theorems quantify over every
   selection that contains all parameters of length > 1. *)
Fixpoint insert_desc (x : nat * nat) (l : list (nat * nat)) : list (nat * nat) :=
  match l with
  | [] => [x]
  | y :: r => if snd y <? snd x then x :: l
              else if (snd y =? snd x) && (fst y <? fst x) then x :: l
              else y :: insert_desc x r
  end.
Definition sort_desc (l : list (nat * nat)) : list (nat * nat) := fold_right insert_desc [] l.

Definition make_details (max_pd : nat) (lens : list nat) : layout :=
  if max_pd <? num_active lens then TooMany
  else let sel := firstn max_pd (sort_desc (combine (seq 0 (length lens)) lens)) in
       Slots (map fst sel) (map snd sel).

(* details.make_kernel_args (after the C01 repair): a non-orientation
   parameter whose distribution has exactly one point is evaluated at that
   point; everything else keeps its nominal value in the scalar table. *)
Definition prepare_scalar {T} (nominal : T) (vals : list T) (orientation : bool) : T :=
  match vals with
  | [v] => if orientation then nominal else v
  | _ => nominal
  end.
