(* C01/Exec.v — binary64 instantiation of C01/Model.v used by the generated
   case files (correspondence check).  Everything here is evaluated with
   vm_compute; nothing is proved about rounding. *)
From Coq Require Import List Arith Bool PrimFloat.
Import ListNotations.
From SM Require Import Base.Num Base.Mesh Base.Sums C01.Model.

Record Case := MkCase {
  c_lens : list nat;                 (* distribution length per parameter, table order *)
  c_W : list (list float);           (* weights per parameter *)
  c_leaves : list (bool * float * list float);  (* row-major (last parameter fastest): valid, proj, components *)
  c_cutoff : float; c_scale : float; c_bg : float;
  c_nq : nat; c_nf : nat;            (* nq, and 1 (F2 only) or 2 (F2 and F1) *)
  c_ks : list nat; c_ns : list nat;  (* observed slot assignment *)
  c_runs : list (list (nat * nat) * float * list float);
      (* partition, previous buffer content, raw sums observed after the run: 4+nq*nf entries *)
  c_iq : list float;                 (* call_kernel output ([] = not observed) *)
  c_fq : list float                  (* call_Fq: R_eff, V_shell, ratio, F2.., F1.. ([] = not observed) *)
}.

Definition wt_of (W : list (list float)) (p i : nat) : float := nth i (nth p W []) 0%float.

Definition pos_of (lens : list nat) (e : env) : nat :=
  fst (fold_left (fun '(acc, p) n => (acc * n + e p, S p)) lens (0, 0)).

Definition leaf_of (lens : list nat) (leaves : list (bool * float * list float))
           (absval : bool) (e : env) : Leaf (T:=float) :=
  match nth_error leaves (pos_of lens e) with
  | Some (v, pj, comps) => MkLeaf v pj (if absval then map PrimFloat.abs comps else comps)
  | None => MkLeaf false 0%float []
  end.

Definition ncomp (cs : Case) : nat := 4 + c_nq cs * c_nf cs.

(* the specification sums and their absolute-value companions (tolerance scale) *)
Definition spec_sums (cs : Case) (absval : bool) : list float :=
  map (spec_component FOps (c_cutoff cs) (wt_of (c_W cs))
         (leaf_of (c_lens cs) (c_leaves cs) absval) (c_lens cs))
      (seq 0 (ncomp cs)).

Definition loop_sums (cs : Case) (parts : list (nat * nat)) (prev : float) : list float :=
  map (fun c => loop_component FOps (c_cutoff cs) (c_ks cs) (c_ns cs) (wt_of (c_W cs))
                  (leaf_of (c_lens cs) (c_leaves cs) false) c parts prev)
      (seq 0 (ncomp cs)).

Definition mk_sums (cs : Case) (l : list float) : Sums (T:=float) :=
  MkSums (nth 0 l 0%float) (nth 1 l 0%float) (nth 2 l 0%float) (nth 3 l 0%float)
         (firstn (c_nq cs) (skipn 4 l))
         (if c_nf cs =? 2 then firstn (c_nq cs) (skipn (4 + c_nq cs) l) else []).

Definition tiny : float := 0x1p-1000%float.

(* codes: 1 = call_kernel differs from the formula, 2 = call_Fq differs,
   10+k = raw kernel run k differs from the loop model,
   20+k = loop model of run k differs from the formula (model-internal) *)
Definition check_case (rel : float) (cs : Case) : list nat :=
  let S := spec_sums cs false in
  let A := spec_sums cs true in
  let s := mk_sums cs S in
  let a := mk_sums cs A in
  let o := normalise FOps s in
  let tw := if PrimFloat.eqb (s_norm s) 0 then 1%float else s_norm s in
  let iq_scale := map (fun x => PrimFloat.add (PrimFloat.abs (c_bg cs))
                        (PrimFloat.abs (PrimFloat.mul (PrimFloat.div (c_scale cs) (o_shell o)) (PrimFloat.div x tw)))) (s_f2 a) in
  let r1 := match c_iq cs with
            | [] => []
            | iq => if all_close rel tiny iq_scale (intensity FOps (c_scale cs) (c_bg cs) s) iq then [] else [1]
            end in
  let r2 := match c_fq cs with
            | [] => []
            | fq =>
              let model := [o_reff o; o_shell o; o_ratio o] ++ o_f2 o ++ o_f1 o in
              let sc := [PrimFloat.div (s_rad a) tw; PrimFloat.abs (o_shell o);
                         PrimFloat.abs (o_ratio o)]
                        ++ map (fun x => PrimFloat.div x tw) (s_f2 a)
                        ++ map (fun x => PrimFloat.div x tw) (s_f1 a) in
              if all_close rel tiny sc model fq then [] else [2]
            end in
  let runs := c_runs cs in
  let r3 := concat (map (fun '(k, (parts, prev, obs)) =>
                 let L := loop_sums cs parts prev in
                 (if all_close rel tiny A L obs then [] else [10 + k]) ++
                 (if all_close rel tiny A L S then [] else [20 + k]))
               (combine (seq 0 (length runs)) runs)) in
  r1 ++ r2 ++ r3.

Definition check_cases (rel : float) (l : list Case) : list (list nat) := map (check_case rel) l.
