(* C18/Names.v — the rename protocol with the temporary file NAMES made explicit.
   Each builder p compiles to the name [tname p]; the linker removes that name and creates a fresh file (inode)
   which it then fills; os.replace(tname p, final) makes the final name refer to whatever file the temporary name
   refers to AT THAT MOMENT and fails if the name is gone.  The final name therefore aliases a file that its
   creator may still be writing.  With pairwise distinct temporary names the protocol is safe for every schedule;
   with a shared name (a name computed once before fork) it is not. *)
From Coq Require Import List Arith Bool Lia.
Import ListNotations.
From SM Require Import C18.Model.

Section Names.
  Variable tname : nat -> nat.

  Record nstate := MkN {
    nfinal : option nat;             (* the final name refers to the file created by this builder *)
    names : nat -> option nat;       (* temporary name -> builder whose file it refers to *)
    ino : nat -> content;            (* content of the file created by each builder *)
    npc : nat -> stage;
    nloaded : nat -> option content
  }.
  Definition ninit : nstate := MkN None (fun _ => None) (fun _ => Absent) (fun _ => Start) (fun _ => None).
  Definition fcontent (s : nstate) : content := match nfinal s with None => Absent | Some q => ino s q end.

  Definition nstep (s : nstate) (p : nat) : nstate :=
    match npc s p with
    | Start => match nfinal s with
               | None => MkN (nfinal s) (names s) (ino s) (upd (npc s) p WriteHalf) (nloaded s)
               | Some _ => MkN (nfinal s) (names s) (ino s) (upd (npc s) p Load) (nloaded s)
               end
    | WriteHalf => MkN (nfinal s) (upd (names s) (tname p) (Some p)) (upd (ino s) p Partial) (upd (npc s) p WriteRest) (nloaded s)
    | WriteRest => MkN (nfinal s) (names s) (upd (ino s) p Complete) (upd (npc s) p Publish) (nloaded s)
    | Publish => match names s (tname p) with
                 | Some q => MkN (Some q) (upd (names s) (tname p) None) (ino s) (upd (npc s) p Load) (nloaded s)
                 | None => MkN (nfinal s) (names s) (ino s) (upd (npc s) p Done) (nloaded s)      (* FileNotFoundError *)
                 end
    | Load => MkN (nfinal s) (names s) (ino s) (upd (npc s) p Done) (upd (nloaded s) p (Some (fcontent s)))
    | Done => s
    end.
  Definition nrun (sched : list nat) (s : nstate) : nstate := fold_left nstep sched s.

  Definition NInv (s : nstate) : Prop :=
    (forall q, nfinal s = Some q -> ino s q = Complete /\ (npc s q = Load \/ npc s q = Done)) /\
    (forall p c, nloaded s p = Some c -> c = Complete) /\
    (forall n q, names s n = Some q -> tname q = n /\ (npc s q = WriteRest \/ npc s q = Publish)) /\
    (forall p, npc s p = WriteRest \/ npc s p = Publish -> names s (tname p) = Some p) /\
    (forall p, npc s p = Publish -> ino s p = Complete) /\
    (forall p, npc s p = Load -> nfinal s <> None).

  Hypothesis tname_injective : forall p q, tname p = tname q -> p = q.

  Lemma upd_same {A} (f : nat -> A) p v : upd f p v p = v.
  Proof. unfold upd. rewrite Nat.eqb_refl. reflexivity. Qed.
  Lemma upd_other {A} (f : nat -> A) p q v : q <> p -> upd f p v q = f q.
  Proof. intros H. unfold upd. destruct (q =? p) eqn:E; auto. apply Nat.eqb_eq in E. contradiction. Qed.

  Lemma ninv_init : NInv ninit.
  Proof.
    unfold NInv, ninit; simpl. refine (conj _ (conj _ (conj _ (conj _ (conj _ _))))); intros; try discriminate.
    destruct H; discriminate.
  Qed.

  (* case split on whether a quantified process / name is the one that moves *)
  Ltac cases q p := destruct (Nat.eq_dec q p) as [?|?]; [subst; rewrite ?upd_same in * | rewrite ?upd_other in * by assumption].
  Ltac nope := solve [ discriminate | congruence
                     | match goal with H : _ \/ _ |- _ => destruct H; congruence end ].

  Lemma ninv_step s p : NInv s -> NInv (nstep s p).
  Proof.
    intros [I1 [I2 [I3 [I4 [I5 I6]]]]]. unfold nstep.
    destruct (npc s p) eqn:Ep.
    - (* Start *)
      destruct (nfinal s) as [f|] eqn:Ef;
        (refine (conj _ (conj _ (conj _ (conj _ (conj _ _))))); simpl; intros).
      + destruct (I1 _ H) as [A B]. split; [exact A|]. cases q p; [nope | exact B].
      + eauto.
      + destruct (I3 _ _ H) as [A B]. split; [exact A|]. cases q p; [nope | exact B].
      + cases p0 p; [nope | apply I4; exact H].
      + cases p0 p; [nope | apply I5; exact H].
      + discriminate.
      + discriminate.
      + eauto.
      + destruct (I3 _ _ H) as [A B]. split; [exact A|]. cases q p; [nope | exact B].
      + cases p0 p; [nope | apply I4; exact H].
      + cases p0 p; [nope | apply I5; exact H].
      + cases p0 p; [nope | apply (I6 p0); exact H].
    - (* WriteHalf *)
      refine (conj _ (conj _ (conj _ (conj _ (conj _ _))))); simpl; intros.
      + destruct (I1 _ H) as [A B]. cases q p; [nope | split; assumption].
      + eauto.
      + destruct (Nat.eq_dec n (tname p)) as [E|E].
        * subst n. rewrite upd_same in H. inversion H; subst. rewrite upd_same. auto.
        * rewrite upd_other in H by assumption. destruct (I3 _ _ H) as [A B]. split; [exact A|].
          cases q p; [nope | exact B].
      + cases p0 p.
        * first [reflexivity | apply upd_same].
        * rewrite upd_other; [apply I4; exact H|]. intro E. apply tname_injective in E. contradiction.
      + cases p0 p; [nope | apply I5; exact H].
      + cases p0 p; [nope | apply (I6 p0); exact H].
    - (* WriteRest *)
      refine (conj _ (conj _ (conj _ (conj _ (conj _ _))))); simpl; intros.
      + destruct (I1 _ H) as [A B]. cases q p; [nope | split; assumption].
      + eauto.
      + destruct (I3 _ _ H) as [A B]. split; [exact A|]. cases q p; [auto | exact B].
      + cases p0 p; [apply I4; auto | apply I4; exact H].
      + cases p0 p; [reflexivity | apply I5; exact H].
      + cases p0 p; [nope | apply (I6 p0); exact H].
    - (* Publish *)
      assert (Hn : names s (tname p) = Some p) by (apply I4; auto).
      rewrite Hn. refine (conj _ (conj _ (conj _ (conj _ (conj _ _))))); simpl; intros.
      + inversion H; subst. rewrite upd_same. split; [apply I5; exact Ep | auto].
      + eauto.
      + destruct (Nat.eq_dec n (tname p)) as [E|E]; [subst n; rewrite upd_same in H; discriminate|].
        rewrite upd_other in H by assumption. destruct (I3 _ _ H) as [A B]. split; [exact A|].
        cases q p; [exfalso; apply E; first [reflexivity | symmetry; assumption | congruence] | exact B].
      + cases p0 p; [nope|].
        rewrite upd_other; [apply I4; exact H|]. intro E. apply tname_injective in E. contradiction.
      + cases p0 p; [nope | apply I5; exact H].
      + discriminate.
    - (* Load *)
      refine (conj _ (conj _ (conj _ (conj _ (conj _ _))))); simpl; intros.
      + destruct (I1 _ H) as [A B]. split; [exact A|]. cases q p; [auto | exact B].
      + cases p0 p.
        * inversion H; subst. unfold fcontent. destruct (nfinal s) as [f|] eqn:Ef.
          -- destruct (I1 _ eq_refl); auto.
          -- exfalso. apply (I6 p Ep). first [exact Ef | reflexivity].
        * eauto.
      + destruct (I3 _ _ H) as [A B]. split; [exact A|]. cases q p; [nope | exact B].
      + cases p0 p; [nope | apply I4; exact H].
      + cases p0 p; [nope | apply I5; exact H].
      + cases p0 p; [nope | apply (I6 p0); exact H].
    - exact (conj I1 (conj I2 (conj I3 (conj I4 (conj I5 I6))))).
  Qed.

  Lemma ninv_run sched : forall s, NInv s -> NInv (nrun sched s).
  Proof. induction sched as [|p r IH]; intros s H; simpl; auto. apply IH. apply ninv_step. exact H. Qed.

  (* with pairwise distinct temporary names: the final name never refers to a file that is not complete, and every
     load saw a complete library - for every schedule and every set of kill points *)
  Theorem names_safe sched :
    let s := nrun sched ninit in
    (fcontent s = Absent \/ fcontent s = Complete) /\ (forall p c, nloaded s p = Some c -> c = Complete).
  Proof.
    intros s. destruct (ninv_run sched ninit ninv_init) as [I1 [I2 _]]. fold s in I1, I2. split; [|exact I2].
    unfold fcontent. destruct (nfinal s) as [q|] eqn:E; [right; apply (I1 q); reflexivity | left; reflexivity].
  Qed.
End Names.

(* a temporary name shared by two builders (computed once, before fork): builder 1 publishes the file builder 2 is
   still writing and loads it *)
Theorem shared_name_refuted :
  exists sched, nloaded (nrun (fun _ => 0) sched (ninit)) 1 = Some Partial.
Proof. exists [1; 2; 1; 2; 1; 1; 1]. vm_compute. reflexivity. Qed.
