From Coq Require Import List Arith Bool Lia.
Import ListNotations.
From SM Require Import C18.Model.

(* Invariant of the rename protocol:
   - the final name is never partial;
   - a process about to publish holds a complete temporary;
   - every load so far saw a complete library;
   - once a process is past its lookup having found the file, or has loaded,
     the final name is complete (it can never disappear). *)
Definition Inv (s : state) : Prop :=
  final s <> Partial /\
  (forall p, pc s p = Publish -> tmp s p = Complete) /\
  (forall p c, loaded s p = Some c -> c = Complete) /\
  (forall p, pc s p = Load -> final s = Complete).

Lemma upd_same {A} (f : nat -> A) p v : upd f p v p = v.
Proof. unfold upd. rewrite Nat.eqb_refl. reflexivity. Qed.
Lemma upd_other {A} (f : nat -> A) p q v : q <> p -> upd f p v q = f q.
Proof. unfold upd. intros H. destruct (Nat.eqb_spec q p); congruence. Qed.

Lemma inv_init : Inv init.
Proof. unfold Inv, init; simpl. repeat split; try discriminate. Qed.

Ltac solve_q :=
  intros; rewrite ?upd_same in *;
  repeat match goal with
  | H : context [upd _ ?p _ ?q] |- _ =>
      destruct (Nat.eq_dec q p) as [->|?]; [rewrite upd_same in H | rewrite upd_other in H by auto]
  | |- context [upd _ ?p _ ?q] =>
      destruct (Nat.eq_dec q p) as [->|?]; [rewrite upd_same | rewrite upd_other by auto]
  end; rewrite ?upd_same in *;
  try discriminate; try congruence; eauto.

Lemma inv_step s p : Inv s -> Inv (step Rename s p).
Proof.
  intros [Hf [Hp [Hl Hld]]]. unfold step.
  destruct (pc s p) eqn:Epc.
  - (* Start *)
    destruct (final s) eqn:Ef; [| congruence |]; unfold Inv; simpl; repeat split; solve_q;
      try (match goal with H : pc s _ = Load |- _ => specialize (Hld _ H); congruence end).
  - (* WriteHalf *) unfold Inv; simpl; repeat split; solve_q.
  - (* WriteRest *) unfold Inv; simpl; repeat split; solve_q.
  - (* Publish *)
    pose proof (Hp p Epc) as Ht. unfold Inv; simpl; rewrite Ht; repeat split; solve_q.
  - (* Load *)
    pose proof (Hld p Epc) as Hc. unfold Inv; simpl; repeat split; solve_q;
      try (match goal with H : Some _ = Some _ |- _ => inversion H; subst; auto end).
  - (* Done *) unfold Inv; auto.
Qed.

Theorem rename_safe sched : Inv (run Rename sched init).
Proof.
  unfold run. assert (H : forall s, Inv s -> Inv (fold_left (step Rename) sched s)).
  { induction sched as [|p r IH]; simpl; intros s Hs; auto. apply IH. apply inv_step; auto. }
  apply H. apply inv_init.
Qed.

(* the same holds from any state satisfying the invariant, e.g. after crashes *)
Lemma rename_safe_from s sched : Inv s -> Inv (run Rename sched s).
Proof.
  unfold run. revert s. induction sched as [|p r IH]; simpl; intros s Hs; auto.
  apply IH. apply inv_step; auto.
Qed.

(* Recovery: whatever happened before (any schedule, any processes abandoned
   at any point), a fresh process run alone to completion loads a complete
   library. *)
Theorem rename_recovers sched p :
  let s := run Rename sched init in
  pc s p = Start ->
  loaded (run Rename [p; p; p; p; p] s) p = Some Complete.
Proof.
  intros s Hpc. pose proof (rename_safe sched) as [Hf _]. fold s in Hf.
  unfold run. cbn [fold_left].
  unfold step at 5. rewrite Hpc.
  destruct (final s) eqn:Ef; [| congruence |].
  - (* absent: compile and publish *)
    unfold step at 4. cbn [pc]. rewrite upd_same.
    unfold step at 3. cbn [pc]. rewrite upd_same.
    unfold step at 2. cbn [pc tmp]. rewrite upd_same.
    unfold step at 1. cbn [pc final tmp loaded]. rewrite !upd_same. cbn [loaded]. apply upd_same.
  - (* complete: load it; remaining steps are no-ops *)
    unfold step at 4. cbn [pc]. rewrite upd_same. cbn [final].
    unfold step at 3. cbn [pc]. rewrite upd_same.
    unfold step at 2. cbn [pc]. rewrite upd_same.
    unfold step at 1. cbn [pc loaded]. rewrite !upd_same. cbn [loaded]. try rewrite Ef. try apply upd_same.
Qed.

(* ---- failing builds (exception unwinding through the finally clause) ---- *)
Lemma inv_abort s p : Inv s -> Inv (abort false s p).
Proof.
  intros [Hf [Hp [Hl Hld]]]. unfold abort.
  destruct (pc s p) eqn:Epc; try (unfold Inv; auto; fail); unfold Inv; simpl; repeat split; solve_q.
Qed.

Theorem unwind_safe evs : Inv (erun false evs init).
Proof.
  unfold erun. assert (H : forall s, Inv s -> Inv (fold_left (estep false) evs s)).
  { induction evs as [|e r IH]; simpl; intros s Hs; auto. apply IH. destruct e; simpl; [apply inv_step|apply inv_abort]; auto. }
  apply H. apply inv_init.
Qed.

(* recovery from ANY state satisfying the invariant *)
Theorem recovers_from s p : Inv s -> pc s p = Start ->
  loaded (run Rename [p; p; p; p; p] s) p = Some Complete.
Proof.
  intros [Hf _] Hpc.
  unfold run. cbn [fold_left].
  unfold step at 5. rewrite Hpc.
  destruct (final s) eqn:Ef; [| congruence |].
  - unfold step at 4. cbn [pc]. rewrite upd_same.
    unfold step at 3. cbn [pc]. rewrite upd_same.
    unfold step at 2. cbn [pc tmp]. rewrite upd_same.
    unfold step at 1. cbn [pc final tmp loaded]. rewrite !upd_same. cbn [loaded]. apply upd_same.
  - unfold step at 4. cbn [pc]. rewrite upd_same. cbn [final].
    unfold step at 3. cbn [pc]. rewrite upd_same.
    unfold step at 2. cbn [pc]. rewrite upd_same.
    unfold step at 1. cbn [pc loaded]. rewrite !upd_same. cbn [loaded]. try rewrite Ef. try apply upd_same.
Qed.
Theorem unwind_recovers evs p :
  let s := erun false evs init in pc s p = Start -> loaded (run Rename [p; p; p; p; p] s) p = Some Complete.
Proof. intros s H. apply recovers_from; auto. apply unwind_safe. Qed.

(* renaming the temporary onto the final name while unwinding is refuted: lookup, first half, failure *)
Theorem unwind_publish_refuted : exists evs, final (erun true evs init) = Partial.
Proof. exists [Step 1; Step 1; Abort 1]. vm_compute. reflexivity. Qed.

(* compiling in place violates it: P1 lookup, P1 writes half, P2 lookup finds
   the file, P2 loads a partial library *)
Theorem inplace_refuted :
  exists sched, loaded (run InPlace sched init) 2 = Some Partial.
Proof. exists [1; 1; 2; 2]. vm_compute. reflexivity. Qed.

(* ... and a killed build leaves a partial file under the final name *)
Theorem inplace_crash_refuted :
  exists sched, final (run InPlace sched init) = Partial.
Proof. exists [1; 1]. vm_compute. reflexivity. Qed.
