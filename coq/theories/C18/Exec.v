From Coq Require Import List Arith Bool.
Import ListNotations.
From SM Require Import Base.Num C18.Model.

Fixpoint list_eqb (a b : list nat) : bool :=
  match a, b with
  | [], [] => true
  | x :: a', y :: b' => Nat.eqb x y && list_eqb a' b'
  | _, _ => false
  end.

Definition check_case (c : list nat * list nat * list (nat * nat)) : bool :=
  let '(sched, tr, lds) := c in
  let s := run Rename sched init in
  list_eqb (map code (trace Rename sched init)) tr &&
  forallb (fun pc => Nat.eqb (ocode (loaded s (fst pc))) (snd pc)) lds.

Definition check_cases (l : list (list nat * list nat * list (nat * nat))) : list nat :=
  failing (map check_case l).

(* schedules that end with failing builds: (schedule, processes whose build fails afterwards, observed state of
   the final name after the failures) *)
Definition check_unwind (c : list nat * list nat * nat) : bool :=
  let '(sched, aborted, after) := c in
  let s := erun false (map Step sched ++ map Abort aborted) init in
  Nat.eqb (code (final s)) after.
Definition check_unwinds (l : list (list nat * list nat * nat)) : list nat := failing (map check_unwind l).
