(* C18/Property.v — the property theorems and nothing else. *)
From Coq Require Import List Arith.
Import ListNotations.
From SM Require Import C18.Model C18.Proofs C18.Names.

(* For every number of processes, every interleaving of their steps and every
   set of kill points (a killed process is one that is not scheduled again):
   the final cache name never holds a partial library and every load that
   happened saw a complete one. *)
Theorem C18_publish_safe : forall sched, Inv (run Rename sched init).
Proof. exact rename_safe. Qed.
Print Assumptions C18_publish_safe.

(* After any such history, the next attempt by a fresh process succeeds. *)
Theorem C18_recovers : forall sched p,
  let s := run Rename sched init in
  pc s p = Start -> loaded (run Rename [p; p; p; p; p] s) p = Some Complete.
Proof. exact rename_recovers. Qed.
Print Assumptions C18_recovers.

(* Compiling in place (the code before the repair) is refuted by a two-process
   schedule and by a single kill. *)
Theorem C18_inplace_refuted : exists sched, loaded (run InPlace sched init) 2 = Some Partial.
Proof. exact inplace_refuted. Qed.
Print Assumptions C18_inplace_refuted.

Theorem C18_inplace_crash_refuted : exists sched, final (run InPlace sched init) = Partial.
Proof. exact inplace_crash_refuted. Qed.
Print Assumptions C18_inplace_crash_refuted.

(* Builds that FAIL rather than vanish - the compiler is killed or errors out, the builder gets SIGINT or a
   handled SIGTERM - unwind through the clean-up clause.  With any mixture of steps and such failures the
   invariant still holds and the next attempt still succeeds; a clean-up that renames the temporary onto the
   final name instead of deleting it is refuted. *)
Theorem C18_unwind_safe : forall evs, Inv (erun false evs init).
Proof. exact unwind_safe. Qed.
Print Assumptions C18_unwind_safe.
Theorem C18_unwind_recovers : forall evs p,
  let s := erun false evs init in pc s p = Start -> loaded (run Rename [p; p; p; p; p] s) p = Some Complete.
Proof. exact unwind_recovers. Qed.
Print Assumptions C18_unwind_recovers.
Theorem C18_unwind_publish_refuted : exists evs, final (erun true evs init) = Partial.
Proof. exact unwind_publish_refuted. Qed.
Print Assumptions C18_unwind_publish_refuted.

(* ---- temporary NAMES made explicit (C18/Names.v): the linker removes its output name and creates a fresh file,
   os.replace makes the final name refer to whatever file the temporary name refers to at that moment.  With
   pairwise distinct temporary names the final name never refers to an incomplete file and every load saw a
   complete library, for every schedule and every set of kill points; one name shared by two builders (a name
   computed once, before fork) is refuted.  The run checks the hypothesis on every real schedule: the output
   names the scripted compiler is given by different builders are pairwise distinct. *)
Theorem C18_distinct_names_safe : forall tname : nat -> nat, (forall p q, tname p = tname q -> p = q) ->
  forall sched, let s := nrun tname sched ninit in
  (fcontent s = Absent \/ fcontent s = Complete) /\ (forall p c, nloaded s p = Some c -> c = Complete).
Proof. exact names_safe. Qed.
Print Assumptions C18_distinct_names_safe.

Theorem C18_shared_name_refuted : exists sched, nloaded (nrun (fun _ => 0) sched ninit) 1 = Some Partial.
Proof. exact shared_name_refuted. Qed.
Print Assumptions C18_shared_name_refuted.

(* ---- the protocol the theorems are about is the one the CODE follows: kerneldll.make_dll of the current tree, read
   as a build protocol on every run (Gen/C18_code.v: where the compiler writes, how the result gets its final name,
   what the clean-up clause does).  For every schedule, every kill point and every mixture of steps and failing
   builds, the invariant holds for the code's protocol. *)
From SM Require Import Gen.C18_code.
Theorem C18_code_publish_safe : translated = true -> forall sched, Inv (run code_protocol sched init).
Proof. intros Ht. try solve [vm_compute in Ht; discriminate Ht]. all: exact rename_safe. Qed.
Print Assumptions C18_code_publish_safe.
Theorem C18_code_unwind_safe : translated = true -> forall evs, Inv (erun code_publish_on_unwind evs init).
Proof. intros Ht. try solve [vm_compute in Ht; discriminate Ht]. all: exact unwind_safe. Qed.
Print Assumptions C18_code_unwind_safe.
