(* C18/Model.v — building a model library under concurrency and crashes.
   N processes share one cache directory.  Each runs
       lookup; (if absent: write first half; write rest; publish); load
   A schedule is a list of process ids: each occurrence lets that process take
   its next step.  A crash is a process that is never scheduled again, so every
   kill point is a schedule.  Two protocols:
     [Rename]  compile to a private temporary name, then os.replace onto the
               final name (kerneldll.make_dll after the C18 repair);
     [InPlace] compile directly to the final name (before the repair). *)
From Coq Require Import List Arith Bool.
Import ListNotations.

Inductive content := Absent | Partial | Complete.
Inductive stage := Start | WriteHalf | WriteRest | Publish | Load | Done.
Inductive protocol := Rename | InPlace.

Record state := MkState {
  final : content;                 (* what is under the final cache name *)
  tmp : nat -> content;            (* private temporary output of each process *)
  pc : nat -> stage;               (* next step of each process *)
  loaded : nat -> option content   (* what each process's dlopen saw *)
}.

Definition init : state := MkState Absent (fun _ => Absent) (fun _ => Start) (fun _ => None).

Definition upd {A} (f : nat -> A) (p : nat) (v : A) : nat -> A := fun q => if q =? p then v else f q.

Definition step (pr : protocol) (s : state) (p : nat) : state :=
  match pc s p with
  | Start =>        (* os.path.exists(dll) *)
      match final s with
      | Absent => MkState (final s) (tmp s) (upd (pc s) p WriteHalf) (loaded s)
      | _ => MkState (final s) (tmp s) (upd (pc s) p Load) (loaded s)
      end
  | WriteHalf =>
      match pr with
      | Rename => MkState (final s) (upd (tmp s) p Partial) (upd (pc s) p WriteRest) (loaded s)
      | InPlace => MkState Partial (tmp s) (upd (pc s) p WriteRest) (loaded s)
      end
  | WriteRest =>
      match pr with
      | Rename => MkState (final s) (upd (tmp s) p Complete) (upd (pc s) p Publish) (loaded s)
      | InPlace => MkState Complete (tmp s) (upd (pc s) p Publish) (loaded s)
      end
  | Publish =>
      match pr with
      | Rename => MkState (tmp s p) (upd (tmp s) p Absent) (upd (pc s) p Load) (loaded s)   (* os.replace *)
      | InPlace => MkState (final s) (tmp s) (upd (pc s) p Load) (loaded s)
      end
  | Load => MkState (final s) (tmp s) (upd (pc s) p Done) (upd (loaded s) p (Some (final s)))
  | Done => s
  end.

Definition run (pr : protocol) (sched : list nat) (s : state) : state := fold_left (step pr) sched s.

(* A build that fails with an exception instead of being destroyed - the compiler is killed or exits with
   an error, the builder receives SIGINT (KeyboardInterrupt) or a SIGTERM it handles: control leaves
   compile_model through the `finally:` clause of make_dll, which removes the temporary output.
   [publish_on_unwind] is the variant in which the clean-up renames the temporary onto the final name. *)
Definition abort (publish_on_unwind : bool) (s : state) (p : nat) : state :=
  match pc s p with
  | WriteHalf => MkState (final s) (tmp s) (upd (pc s) p Done) (loaded s)
  | WriteRest | Publish =>
      if publish_on_unwind
      then MkState (tmp s p) (upd (tmp s) p Absent) (upd (pc s) p Done) (loaded s)
      else MkState (final s) (upd (tmp s) p Absent) (upd (pc s) p Done) (loaded s)
  | _ => s
  end.
Inductive event := Step (p : nat) | Abort (p : nat).
Definition estep (b : bool) (s : state) (e : event) : state :=
  match e with Step p => step Rename s p | Abort p => abort b s p end.
Definition erun (b : bool) (evs : list event) (s : state) : state := fold_left (estep b) evs s.

(* trace of the final name after each step, for the correspondence check *)
Fixpoint trace (pr : protocol) (sched : list nat) (s : state) : list content :=
  match sched with
  | [] => []
  | p :: r => let s' := step pr s p in final s' :: trace pr r s'
  end.

Definition code (c : content) : nat := match c with Absent => 0 | Partial => 1 | Complete => 2 end.
Definition ocode (c : option content) : nat := match c with None => 9 | Some c => code c end.
