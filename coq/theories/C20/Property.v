(* C20/Property.v — the property theorems and nothing else.
   Gen.C20_table is regenerated from /repo on every run. *)
From Coq Require Import String List Bool.
Import ListNotations.
From SM Require Import C20.Model C20.Proofs Gen.C20_table.
Open Scope string_scope.

(* For EVERY mapping and EVERY parameter set (any subset of old names, any
   decorations, any other keys) the renaming is the simultaneous substitution
   [spec]: no error case exists, each present source's value appears at its
   target, renamed sources disappear, every other key is untouched. *)
Theorem C20_convert_pars_spec :
  forall (V : Type) dots mapping (pars : dict V) k,
  get V (convert_pars V dots mapping pars) k = spec V pars (present V pars (renames dots mapping)) k.
Proof. exact convert_pars_spec. Qed.
Print Assumptions C20_convert_pars_spec.

Theorem C20_value_routed :
  forall (V : Type) dots mapping (pars : dict V) s t v,
  NoDup (map snd (renames dots mapping)) -> In (s, t) (renames dots mapping) -> s <> t ->
  get V pars s = Some v -> get V (convert_pars V dots mapping pars) t = Some v.
Proof. exact convert_pars_routes. Qed.
Print Assumptions C20_value_routed.

Theorem C20_source_removed :
  forall (V : Type) dots mapping (pars : dict V) s t,
  In (s, t) (present V pars (renames dots mapping)) ->
  ~ In s (map snd (present V pars (renames dots mapping))) ->
  get V (convert_pars V dots mapping pars) s = None.
Proof. exact convert_pars_source_gone. Qed.
Print Assumptions C20_source_removed.

Theorem C20_untouched :
  forall (V : Type) dots mapping (pars : dict V) k,
  ~ In k (map fst (renames dots mapping)) -> ~ In k (map snd (renames dots mapping)) ->
  get V (convert_pars V dots mapping pars) k = get V pars k.
Proof. exact convert_pars_untouched. Qed.
Print Assumptions C20_untouched.

Theorem C20_keys :
  forall (V : Type) dots mapping (pars : dict V) k,
  get V (convert_pars V dots mapping pars) k <> None ->
  get V pars k <> None \/ In k (map snd (renames dots mapping)).
Proof. exact convert_pars_keys. Qed.
Print Assumptions C20_keys.

Theorem C20_defaults :
  forall (V : Type) (d : dict V) k v, mem V (setdefault V d k v) k = true.
Proof. exact setdefault_mem. Qed.
Print Assumptions C20_defaults.

(* ---- obligations over the regenerated tables (finite, by computation) ---- *)

(* in every row of the current tables the targets are pairwise distinct, so
   C20_value_routed applies to it for every parameter set *)
Theorem C20_table_targets_distinct :
  forall r, In r rows -> NoDup (map snd (renames dots (r_mapping r))).
Proof.
  assert (H : forallb (fun r => nodupb (map snd (renames dots (r_mapping r)))) rows = true) by (vm_compute; reflexivity).
  intros r Hr. apply nodupb_NoDup. rewrite forallb_forall in H. apply H; auto.
Qed.
Print Assumptions C20_table_targets_distinct.

(* every new name in every row is a parameter of the current model (or the
   4.1 spelling of a magnetic parameter, renamed by the later steps), except
   the stale entries recorded as known findings *)
Definition memb (s : string) (l : list string) := existsb (String.eqb s) l.
Definition memb2 (p : string * string) (l : list (string * string)) :=
  existsb (fun q => String.eqb (fst p) (fst q) && String.eqb (snd p) (snd q)) l.
Definition targets_ok : bool :=
  forallb (fun '(r, (valid, (nexts, (key, _)))) =>
             forallb (fun row => match snd row with
                                 | Some _ => memb (fst row) valid || memb2 (key, fst row) stale
                                           || memb (mag_name (fst row)) valid
                                           || String.eqb (fst row) "up:angle" || memb (fst row) nexts
                                 | None => true
                                 end) (r_mapping r))
          (combine rows (combine row_valid (combine row_next_olds row_names))).
Theorem C20_targets_exist : targets_ok = true.
Proof. vm_compute. reflexivity. Qed.
Print Assumptions C20_targets_exist.

(* the model name returned for every row is a current model *)
Theorem C20_names_current : forallb (fun kn => memb (snd kn) model_names) row_names = true.
Proof. vm_compute. reflexivity. Qed.
Print Assumptions C20_names_current.
