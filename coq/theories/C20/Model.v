(* C20/Model.v — convert.convert_model as renaming on association lists.
   Dictionaries are association lists with Python's semantics for the
   operations used (lookup, overwrite-or-append, delete); values are kept
   abstract except for the x1e6 rescaling, which is a parameter [rescale]. *)
From Coq Require Import String List Bool Ascii.
Import ListNotations.
Open Scope string_scope.

Section Dict.
  Variable V : Type.
  Definition dict := list (string * V).

  Fixpoint get (d : dict) (k : string) : option V :=
    match d with
    | [] => None
    | (k', v) :: r => if String.eqb k' k then Some v else get r k
    end.
  Definition mem (d : dict) (k : string) : bool := match get d k with Some _ => true | None => false end.
  Fixpoint del (d : dict) (k : string) : dict :=
    match d with
    | [] => []
    | (k', v) :: r => if String.eqb k' k then del r k else (k', v) :: del r k
    end.
  Fixpoint set (d : dict) (k : string) (v : V) : dict :=
    match d with
    | [] => [(k, v)]
    | (k', v') :: r => if String.eqb k' k then (k, v) :: r else (k', v') :: set r k v
    end.
  Definition keys (d : dict) : list string := map fst d.

  (* ---- _convert_pars (after the C20 repair: simultaneous renaming) ---- *)
  (* the (source, target) pairs named by a row: old+dot => new+dot *)
  Definition row_pairs (dots : list string) (row : string * option string) : list (string * string) :=
    match row with
    | (new, Some old) => if String.eqb old new then [] else map (fun dot => (old ++ dot, new ++ dot)) dots
    | (_, None) => []
    end.
  Definition renames (dots : list string) (mapping : list (string * option string)) : list (string * string) :=
    flat_map (row_pairs dots) mapping.
  (* "if source in pars: if source != target: renamed.append((source, target))" *)
  Definition present (pars : dict) (rs : list (string * string)) : list (string * string) :=
    filter (fun st => mem pars (fst st) && negb (String.eqb (fst st) (snd st))) rs.
  Definition del_all (rs : list (string * string)) (d : dict) : dict :=
    fold_left (fun d st => del d (fst st)) rs d.
  Definition set_all (pars0 : dict) (rs : list (string * string)) (d : dict) : dict :=
    fold_left (fun d st => match get pars0 (fst st) with Some v => set d (snd st) v | None => d end) rs d.
  Definition convert_pars (dots : list string) (mapping : list (string * option string)) (pars : dict) : dict :=
    let rs := present pars (renames dots mapping) in
    set_all pars rs (del_all rs pars).

  (* ---- _rename_magnetic_pars: M0:x -> x_M0, mtheta:x -> x_mtheta, mphi:x -> x_mphi, up:x -> up_x ---- *)
  Definition strip (pre s : string) : option string :=
    if prefix pre s then Some (substring (String.length pre) (String.length s - String.length pre) s) else None.
  Definition mag_name (k : string) : string :=
    match strip "M0:" k with Some r => r ++ "_M0" | None =>
    match strip "mtheta:" k with Some r => r ++ "_mtheta" | None =>
    match strip "mphi:" k with Some r => r ++ "_mphi" | None =>
    match strip "up:" k with Some r => "up_" ++ r | None => k end end end end.
  (* keys = list(pars.keys()); for k in keys: pars[new(k)] = pars.pop(k) *)
  Definition rename_magnetic (d : dict) : dict :=
    fold_left (fun acc k =>
                 let k' := mag_name k in
                 if String.eqb k' k then acc
                 else match get acc k with
                      | Some v => set (del acc k) k' v
                      | None => acc
                      end) (keys d) d.

  (* ---- _rename_magnetic_angles ---- *)
  Variable ninety : V.
  Definition rename_angles (d : dict) : dict :=
    match get d "up_angle" with
    | Some v => del (set (set d "up_theta" ninety) "up_phi" v) "up_angle"
    | None => d
    end.

  (* ---- _rescale_sld ---- *)
  Variable rescale : V -> V.
  Fixpoint contains (sub s : string) : bool :=
    match s with
    | EmptyString => prefix sub s
    | String _ r => prefix sub s || contains sub r
    end.
  Definition is_sld (sld_ids : list string) (k : string) : bool :=
    if prefix "M0:" k then true
    else if contains "_pd" k || contains "." k then false
    else existsb (String.eqb k) sld_ids.
  Definition rescale_sld (sld_ids : list string) (d : dict) : dict :=
    map (fun kv => (fst kv, if is_sld sld_ids (fst kv) then rescale (snd kv) else snd kv)) d.

  (* ---- _pd_to_underscores ---- *)
  Definition ends_with (suf s : string) : option string :=
    let n := String.length s in let m := String.length suf in
    if Nat.leb m n && String.eqb (substring (n - m) m s) suf then Some (substring 0 (n - m) s) else None.
  Definition underscore_name (k : string) : string :=
    match ends_with ".width" k with Some b => b ++ "_pd" | None =>
    match ends_with ".type" k with Some b => b ++ "_pd_type" | None =>
    match ends_with ".nsigmas" k with Some b => b ++ "_pd_nsigma" | None =>
    match ends_with ".npts" k with Some b => b ++ "_pd_n" | None => k end end end end.
  (* dict((f(k), v) for k, v in pars.items()): later duplicates overwrite *)
  Definition pd_to_underscores (d : dict) : dict :=
    fold_left (fun acc kv => set acc (underscore_name (fst kv)) (snd kv)) d [].

  Definition setdefault (d : dict) (k : string) (v : V) : dict := if mem d k then d else set d k v.

  (* one table row applied to a parameter set (models without hand conversion) *)
  Record Row := MkRow {
    r_version_312 : bool;            (* version == (3,1,2) *)
    r_mapping : list (string * option string);
    r_sld_ids : list string;
    r_structure_factor : bool;
    r_magnetic : bool                (* nmagnetic > 0 *)
  }.
  Variables (one zero : V).

  (* one pass of the version loop of convert_model for one table row *)
  Definition convert_row (dots : list string) (r : Row) (pars : dict) : dict :=
    let p1 := rename_angles (rename_magnetic pars) in      (* _hand_convert: versions < 4.2 / <= 5.0.4 *)
    let p2 := convert_pars dots (r_mapping r) p1 in
    let p3 := if negb (r_structure_factor r) && r_version_312 r then rescale_sld (r_sld_ids r) p2 else p2 in
    let p4 := rename_angles (rename_magnetic p3) in
    let p5 := setdefault (setdefault p4 "scale" one) "background" zero in
    if r_magnetic r then setdefault p5 "up_theta" ninety else p5.

  (* the rows that apply in successive versions, then the underscore spelling *)
  Definition convert_rows (dots : list string) (rs : list Row) (use_underscore : bool) (pars : dict) : dict :=
    let p := fold_left (fun p r => convert_row dots r p) rs pars in
    if use_underscore then pd_to_underscores p else p.
End Dict.
