(* C20/Exec.v — evaluation of the conversion model on generated cases *)
From Coq Require Import String List Bool ZArith.
Import ListNotations.
From SM Require Import C20.Model.
Open Scope string_scope.

Definition run_rows (dots : list string) (rs : list Row) (use_underscore : bool) (pars : dict Z) : dict Z :=
  convert_rows Z 90%Z (fun v => (v * 1000000)%Z) 1%Z 0%Z dots rs use_underscore pars.

Definition same (d : dict Z) (e : list (string * Z)) : bool :=
  Nat.eqb (List.length d) (List.length e) &&
  forallb (fun kv => match get Z d (fst kv) with Some v => Z.eqb v (snd kv) | None => false end) e.

Record Case := MkCase { c_rows : list nat; c_us : bool; c_pars : list (string * Z); c_expect : list (string * Z) }.

Definition check_cases (dots : list string) (rows : list Row) (cases : list Case) : list nat :=
  let default := MkRow false [] [] false false in
  concat (map (fun '(i, c) =>
     if same (run_rows dots (map (fun j => nth j rows default) (c_rows c)) (c_us c) (c_pars c)) (c_expect c) then [] else [i])
     (combine (seq 0 (List.length cases)) cases)).
