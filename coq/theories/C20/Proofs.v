(* C20/Proofs.v — a complete functional characterisation of _convert_pars *)
From Coq Require Import String List Bool Lia.
Import ListNotations.
From SM Require Import C20.Model.
Open Scope string_scope.
Open Scope list_scope.

Section P.
  Variable V : Type.
  Notation dict := (dict V).

  Lemma eqb_neq' a b : a <> b -> String.eqb a b = false.
  Proof. intros. apply String.eqb_neq; auto. Qed.

  Lemma get_set_eq (d : dict) k v : get V (set V d k v) k = Some v.
  Proof.
    induction d as [|[k' v'] d IH]; simpl.
    - rewrite String.eqb_refl; auto.
    - destruct (String.eqb k' k) eqn:E; simpl; [rewrite String.eqb_refl; auto|rewrite E; auto].
  Qed.
  Lemma get_set_neq (d : dict) k k2 v : k <> k2 -> get V (set V d k v) k2 = get V d k2.
  Proof.
    intros Hn. induction d as [|[k' v'] d IH]; simpl.
    - rewrite eqb_neq'; auto.
    - destruct (String.eqb k' k) eqn:E; simpl.
      + apply String.eqb_eq in E; subst. rewrite eqb_neq'; auto.
      + destruct (String.eqb k' k2); auto.
  Qed.
  Lemma get_del_eq (d : dict) k : get V (del V d k) k = None.
  Proof.
    induction d as [|[k' v'] d IH]; simpl; auto.
    destruct (String.eqb k' k) eqn:E; simpl; auto. rewrite E; auto.
  Qed.
  Lemma get_del_neq (d : dict) k k2 : k <> k2 -> get V (del V d k) k2 = get V d k2.
  Proof.
    intros Hn. induction d as [|[k' v'] d IH]; simpl; auto.
    destruct (String.eqb k' k) eqn:E; simpl.
    - apply String.eqb_eq in E; subst. rewrite eqb_neq'; auto.
    - destruct (String.eqb k' k2); auto.
  Qed.

  Lemma get_del_all rs : forall (d : dict) k,
    get V (del_all V rs d) k = if existsb (String.eqb k) (map fst rs) then None else get V d k.
  Proof.
    induction rs as [|[s t] rs IH]; intros d k; simpl; auto.
    unfold del_all in *. simpl. rewrite IH.
    destruct (existsb (String.eqb k) (map fst rs)); [rewrite orb_true_r; auto|].
    rewrite orb_false_r. destruct (String.eqb k s) eqn:E.
    - apply String.eqb_eq in E; subst. apply get_del_eq.
    - apply String.eqb_neq in E. apply get_del_neq; auto.
  Qed.

  Lemma get_set_all (pars0 : dict) rs : forall (d : dict) k,
    Forall (fun st => get V pars0 (fst st) <> None) rs ->
    get V (set_all V pars0 rs d) k =
    match find (fun st => String.eqb (snd st) k) (rev rs) with
    | Some st => get V pars0 (fst st)
    | None => get V d k
    end.
  Proof.
    induction rs as [|[s t] rs IH] using rev_ind; intros d k Hp; simpl; auto.
    apply Forall_app in Hp. destruct Hp as [Hp Hx]. inversion Hx as [|? ? Hs _]; subst. simpl in Hs.
    unfold set_all in *. rewrite fold_left_app. simpl. rewrite rev_app_distr. simpl.
    destruct (get V pars0 s) as [v|] eqn:Eg; [|congruence].
    destruct (String.eqb t k) eqn:E.
    - apply String.eqb_eq in E; subst. rewrite get_set_eq. auto.
    - apply String.eqb_neq in E. rewrite get_set_neq by auto. apply IH; auto.
  Qed.

  Lemma present_sources (pars : dict) rs :
    Forall (fun st => get V pars (fst st) <> None) (present V pars rs).
  Proof.
    unfold present. apply Forall_forall. intros st Hin. apply filter_In in Hin.
    destruct Hin as [_ Hb]. apply andb_true_iff in Hb. destruct Hb as [Hm _].
    unfold mem in Hm. destruct (get V pars (fst st)); congruence.
  Qed.

  (* ---- the specification: simultaneous substitution ---- *)
  Definition spec (pars : dict) (rs : list (string * string)) (k : string) : option V :=
    match find (fun st => String.eqb (snd st) k) (rev rs) with
    | Some st => get V pars (fst st)
    | None => if existsb (String.eqb k) (map fst rs) then None else get V pars k
    end.

  Theorem convert_pars_spec dots mapping (pars : dict) k :
    get V (convert_pars V dots mapping pars) k = spec pars (present V pars (renames dots mapping)) k.
  Proof.
    unfold convert_pars, spec. rewrite get_set_all by apply present_sources.
    destruct (find _ _); auto. apply get_del_all.
  Qed.

  (* ---- consequences in the property's words ---- *)
  Lemma existsb_eqb_In k l : existsb (String.eqb k) l = true <-> In k l.
  Proof.
    rewrite existsb_exists. split.
    - intros [x [Hx E]]. apply String.eqb_eq in E; subst; auto.
    - intros H. exists k. split; auto. apply String.eqb_refl.
  Qed.
  Lemma existsb_eqb_notIn k l : ~ In k l -> existsb (String.eqb k) l = false.
  Proof. intros H. destruct (existsb (String.eqb k) l) eqn:E; auto. apply existsb_eqb_In in E. contradiction. Qed.

  Lemma find_target_none (l : list (string * string)) k :
    ~ In k (map snd l) -> find (fun st => String.eqb (snd st) k) l = None.
  Proof.
    induction l as [|[s t] l IH]; simpl; intros H; auto.
    rewrite eqb_neq' by (intros ->; apply H; auto). apply IH. intros Hin; apply H; auto.
  Qed.

  Lemma find_target_unique (l : list (string * string)) s t :
    NoDup (map snd l) -> In (s, t) l -> find (fun st => String.eqb (snd st) t) l = Some (s, t).
  Proof.
    induction l as [|[s' t'] l IH]; simpl; intros Hnd Hin; [contradiction|].
    inversion Hnd as [|? ? Hni Hnd']; subst. destruct Hin as [Heq|Hin].
    - inversion Heq; subst. rewrite String.eqb_refl. reflexivity.
    - rewrite eqb_neq'. { apply IH; auto. }
      intros ->. apply Hni. apply in_map_iff. exists (s, t); auto.
  Qed.

  Lemma NoDup_map_filter {A B} (f : A -> B) (p : A -> bool) l : NoDup (map f l) -> NoDup (map f (filter p l)).
  Proof.
    induction l as [|x l IH]; simpl; intros H; [constructor|].
    inversion H as [|? ? Hni Hnd]; subst. destruct (p x); simpl; auto.
    constructor; auto. intros Hin. apply Hni. apply in_map_iff in Hin. destruct Hin as [y [Hy Hin]].
    apply filter_In in Hin. apply in_map_iff. exists y. tauto.
  Qed.

  (* each present old value is carried to the name the table maps it to *)
  Corollary convert_pars_routes dots mapping (pars : dict) s t v :
    NoDup (map snd (renames dots mapping)) -> In (s, t) (renames dots mapping) -> s <> t ->
    get V pars s = Some v -> get V (convert_pars V dots mapping pars) t = Some v.
  Proof.
    intros Hnd Hin Hst Hg. rewrite convert_pars_spec. unfold spec.
    set (rs := present V pars (renames dots mapping)).
    assert (Hin' : In (s, t) rs).
    { unfold rs, present. apply filter_In. split; auto. simpl. unfold mem. rewrite Hg. simpl.
      rewrite eqb_neq'; auto. }
    assert (Hnd' : NoDup (map snd (rev rs))).
    { rewrite map_rev. apply NoDup_rev. unfold rs, present. apply NoDup_map_filter; auto. }
    assert (Hin'' : In (s, t) (rev rs)) by (rewrite <- in_rev; exact Hin').
    rewrite (find_target_unique (rev rs) s t Hnd' Hin'').
    simpl. exact Hg.
  Qed.

  (* a renamed source disappears unless another present parameter is renamed onto it *)
  Corollary convert_pars_source_gone dots mapping (pars : dict) s t :
    In (s, t) (present V pars (renames dots mapping)) ->
    ~ In s (map snd (present V pars (renames dots mapping))) ->
    get V (convert_pars V dots mapping pars) s = None.
  Proof.
    intros Hin Hnt. rewrite convert_pars_spec. unfold spec.
    rewrite find_target_none by (rewrite map_rev, <- in_rev; auto).
    replace (existsb (String.eqb s) (map fst (present V pars (renames dots mapping)))) with true; auto.
    symmetry. apply existsb_eqb_In. apply in_map_iff. exists (s, t); auto.
  Qed.

  (* keys the table does not mention are untouched *)
  Corollary convert_pars_untouched dots mapping (pars : dict) k :
    ~ In k (map fst (renames dots mapping)) -> ~ In k (map snd (renames dots mapping)) ->
    get V (convert_pars V dots mapping pars) k = get V pars k.
  Proof.
    intros H1 H2. rewrite convert_pars_spec. unfold spec, present.
    rewrite find_target_none.
    - rewrite existsb_eqb_notIn; auto. intros Hin. apply H1. apply in_map_iff in Hin.
      destruct Hin as [x [Hx Hin]]. apply filter_In in Hin. apply in_map_iff. exists x; tauto.
    - rewrite map_rev, <- in_rev. intros Hin. apply H2. apply in_map_iff in Hin.
      destruct Hin as [x [Hx Hin]]. apply filter_In in Hin. apply in_map_iff. exists x; tauto.
  Qed.

  (* every key of the result is an input key or a table target *)
  Corollary convert_pars_keys dots mapping (pars : dict) k :
    get V (convert_pars V dots mapping pars) k <> None ->
    get V pars k <> None \/ In k (map snd (renames dots mapping)).
  Proof.
    rewrite convert_pars_spec. unfold spec.
    destruct (find (fun st => String.eqb (snd st) k) (rev (present V pars (renames dots mapping)))) as [[s t]|] eqn:Ef.
    - intros _. right. apply find_some in Ef. destruct Ef as [Hin Hb]. simpl in Hb.
      apply String.eqb_eq in Hb. subst. apply in_rev in Hin. unfold present in Hin.
      apply filter_In in Hin. apply in_map_iff. exists (s, k). tauto.
    - destruct (existsb _ _); [congruence|]. intros H. left. exact H.
  Qed.

  Lemma setdefault_mem (d : dict) k v : mem V (setdefault V d k v) k = true.
  Proof.
    unfold setdefault. destruct (mem V d k) eqn:E; auto. unfold mem. rewrite get_set_eq. reflexivity.
  Qed.
  Lemma setdefault_keeps (d : dict) k v k2 w : get V d k2 = Some w -> get V (setdefault V d k v) k2 = Some w.
  Proof.
    unfold setdefault. intros H. destruct (mem V d k) eqn:E; auto.
    destruct (String.eqb k k2) eqn:E2.
    - apply String.eqb_eq in E2; subst. unfold mem in E. rewrite H in E. discriminate.
    - apply String.eqb_neq in E2. rewrite get_set_neq; auto.
  Qed.
End P.

(* decidable NoDup used on the regenerated tables *)
Fixpoint nodupb (l : list string) : bool :=
  match l with [] => true | x :: r => negb (existsb (String.eqb x) r) && nodupb r end.

Lemma nodupb_NoDup l : nodupb l = true -> NoDup l.
Proof.
  induction l as [|x r IH]; simpl; intros H; [constructor|].
  apply andb_true_iff in H. destruct H as [H1 H2]. constructor; auto.
  intros Hin. apply negb_true_iff in H1.
  assert (existsb (String.eqb x) r = true).
  { apply existsb_exists. exists x. split; auto. apply String.eqb_refl. }
  congruence.
Qed.
