#!/bin/bash
# tools/confirm_seed.sh <dir-with-patch.diff-and-demo> <ID> [notests]
# Confirms a seeded change in a fresh scratch worktree: demo passes on the original tree,
# fails on the changed tree, and the repository's test suite still passes with the change.
set -u
SD=$(realpath "$1"); ID=$2; NOTESTS=${3:-}
WT=$(mktemp -d /tmp/confwt_XXXX); DLL=$(mktemp -d /tmp/confdll_XXXX)
git -C /repo worktree add -q --detach "$WT" HEAD || exit 2
DEMO=$(ls "$SD"/demo_*.py | head -1)
run_demo() { ( cd "$DLL" && PYTHONPATH="$WT" SAS_DLL_PATH="$DLL" SAS_OPENCL=none PYTHONHASHSEED=0 timeout 1800 /venv/bin/python "$DEMO" > "$DLL/demo.log" 2>&1; echo $? ); }
r0=$(run_demo); echo "demo on original tree: exit $r0"
git -C "$WT" apply "$SD/patch.diff" || { echo "PATCH DOES NOT APPLY"; git -C /repo worktree remove --force "$WT"; rm -rf "$DLL"; exit 2; }
r1=$(run_demo); echo "demo on changed tree: exit $r1"; tail -3 "$DLL/demo.log"
if [ -z "$NOTESTS" ]; then
  ( cd "$WT" && PYTHONPATH="$WT" SAS_DLL_PATH="$DLL" SAS_OPENCL=none timeout 3000 /venv/bin/python -m pytest -ra -q -p no:cacheprovider --timeout=900 --continue-on-collection-errors 2>&1 | tail -4 )
fi
git -C /repo worktree remove --force "$WT"; rm -rf "$DLL"
[ "$r0" = 0 ] && [ "$r1" != 0 ] && echo CONFIRMED-DEMO
