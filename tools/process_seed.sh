#!/bin/bash
# tools/process_seed.sh <ID> <suffix> <outdir>: copy a sub-agent's deliverables to seeded/<ID><suffix>,
# confirm demo + baseline in a fresh worktree, then run the quick check against the patched tree.
set -u
ID=$1; SUF=$2; OUT=$3
D=/verif/seeded/$ID$SUF
mkdir -p "$D"
cp "$OUT/patch.diff" "$D/patch.diff"
cp "$OUT"/demo_*.py "$D/" 2>/dev/null
cp "$OUT/NOTES.md" "$D/NOTES.md" 2>/dev/null
echo "=== confirm"; /verif/tools/confirm_seed.sh "$D" "$ID"
echo "=== try"; TAIL=12 /verif/tools/try_seed.sh "$D" "$ID" quick
