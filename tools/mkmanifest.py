#!/usr/bin/env python3
"""Regenerate /verif/MANIFEST.json from the table below (kept valid at all times)."""
import json, os
VERIF = os.path.dirname(os.path.dirname(os.path.abspath(__file__)))
ALL = ["C%02d" % i for i in range(1, 21)]

CLAIMED = {
 "C01": dict(
    text="Coq theorems over all mesh shapes, slot assignments and chunk partitions: chunk/buffer independence for every number type (binary64 included), loop nest = sum over the full mesh in table order (reals), normalisation formula and empty-mesh => background; tied to the code by running the executable Coq model (vm_compute, binary64) against call_kernel / call_Fq / the raw <model>_Iq symbol with arbitrary (pd_start,pd_stop) partitions, plus a model-free brute-force oracle.",
    note="Trusted: Coq kernel + vm_compute; stdlib real-number axioms (sig_forall_dec, functional_extensionality_dep) for the R statements; harness (case generation, leaf extraction from degenerate-mesh calls of the same compiled kernel); C compiler/libm; binary64 rounding of model vs reals is compared under a 1e-11 relative tolerance, not proved.",
    technique="Coq proof (induction over mesh dimensions / finite Fubini) + vm_compute correspondence",
    design="DESIGN.md §3 C01"),
 "C08": dict(
    text="Coq theorems for every number of components, parameter / magnetic-slot counts and both operations: the index arithmetic of the mixture hands each component exactly its own scale, parameters, magnetic triples and the shared spin state and weight vector (C08_routing, any carrier); the result is scale*sum(scale_k I_k)+background resp. scale*prod(I_k)+background and is invariant under permutation of the components (reals); the pre-repair zero-replacing accumulator is refuted. Tied to the code by evaluating each component alone through the public API and recombining in the Coq binary64 model, compared with the mixture's own output, including components that are exactly zero on the q grid.",
    note="Trusted: Coq kernel + vm_compute; stdlib real axioms for the R statements; harness positional mapping of combined to component parameter names; components of a magnetic mixture are kept in the polarised state with a 1e-200 magnitude.",
    technique="Coq proof (list induction, permutation invariance) + vm_compute correspondence",
    design="DESIGN.md §3 C08"),
 "C20": dict(
    text="Coq theorems for every mapping and every parameter set (any subset of old names with any attributes and any other keys): the renaming is exactly the simultaneous substitution (C20_convert_pars_spec: no error case, values carried to the mapped name, renamed sources removed, other keys untouched, every result key is an input key or a table target); over the conversion tables regenerated from /repo on every run: targets pairwise distinct in every row, every target is a parameter of the current model or of the next table in the chain (stale rows listed in known_findings.json excepted), every returned model name is current. Tied to the code by running convert_model on every row x {empty, full, singletons, decorated, random subsets, 4.1 magnetic keys} x use_underscore x model_version against the executable Coq model (vm_compute) and a model-free oracle (no exception, name loads, keys exist, values routed across the version chain, SLD x1e6, defaults).",
    note="Trusted: Coq kernel + vm_compute (theorems are axiom-free); table dumper harness/c20.py (imports /repo, prints Coq literals, uses the repo's own _get_translation_table for vector expansion); Python dict semantics; rows with hand conversions are covered by the oracle only.",
    technique="Coq proof (association-list renaming = simultaneous substitution) + regenerated-table obligations by vm_compute + correspondence",
    design="DESIGN.md §3 C20"),
 "C18": dict(
    text="Coq theorems over every number of processes, every interleaving of {lookup, write half, write rest, publish, load} and every kill point (a killed process is one never scheduled again): for the temp-name + os.replace protocol the final cache name is never partial and every load saw a complete library (C18_publish_safe, invariant by induction over the schedule), and after any such history a fresh process succeeds (C18_recovers); the in-place protocol of the unrepaired code is refuted by explicit schedules. Tied to the code by driving real load_model processes against one cache directory through a scripted compiler (CC) that blocks between the steps, SIGKILLing paused builders, and comparing the observed history of the final name and of each load with the Coq model run on the same schedule.",
    note="Trusted: Coq kernel (axiom-free theorems); POSIX rename atomicity and dlopen; harness/c18.py (scripted compiler, process driver); the model's step granularity (lookup+load and publish+load cannot be separated in the real process without hooks and are scheduled back to back).",
    technique="Coq proof (invariant over all schedules and crash points) + real-process schedule correspondence",
    design="DESIGN.md §3 C18"),
 "C17": dict(
    text="Coq state machine of the three caches (in-process module cache keyed by dependency mtimes, template cache keyed by mtime, on-disk library cache keyed by (tag of generated source, precision)) with theorems over every history of edits, loads at any precision and process restarts: every load evaluates a library compiled from the current texts (C17_load_current, by an invariant proved by induction over the history), so reverting a file restores the earlier result and different sources or precisions never share a library - under the named hypothesis that the tag identifies the source, which each run checks on the sources it explores. Tied to the code by real edit/load/restart histories on a scratch plug-in with an included C file whose numerical result encodes which texts were compiled, compared step by step (results and directory listing) with the Coq model run on the same history.",
    note="Trusted: Coq kernel (axiom-free; tag injectivity is an explicit hypothesis, CRC32 is not injective in general); file mtimes advance per edit (os.utime); kernel templates are not edited in the real runs; harness/c17.py.",
    technique="Coq proof (state-machine invariant over all histories) + real history correspondence",
    design="DESIGN.md §3 C17"),
 "C11": dict(
    text="Coq theorem for every number type (binary64 included): a kernel call that starts at mesh position 0 and covers the mesh returns the same result buffer after ANY history of other calls as on a fresh object (C11_history_independent, a corollary of the C01 chunk theorem: every slot read is first overwritten), plus the dictionary model of call_Fq (caller's dict unchanged; the popping version refuted). Tied to the code by random operation histories in one process - make_kernel, call_kernel, call_Fq, DirectModel, SasviewModel setParam/evalDistribution/clone, release, reload over compiled, Python, P@S and mixture models, dispersity and magnetism toggled - each evaluation compared BIT-FOR-BIT with the same request made first in a fresh process, and every argument object deep-compared before/after.",
    note="Trusted: Coq kernel (axiom-free theorems); the state of Python-level caches (class-level compiled model, module caches) is covered by the differential run only; harness/c11.py.",
    technique="Coq proof (generic over the carrier) + fresh-process differential histories",
    design="DESIGN.md §3 C11"),
 "C15": dict(
    text="Coq scanners over character lists reproducing the three regex substitutions of convert_type, with theorems for ALL strings: the float tagger only inserts the suffix, only after a decimal floating literal of the stated grammar that starts after a non-word character and is followed by one (C15_tag_float_tagged, C15_match_float_sound); the keyword conversion only replaces the letters 'double' where [c]double[2|4|8|16] is delimited on both sides (C15_conv_double_retyped); integer promotion only inserts decimal points; double precision does nothing else. Tied to the code by extracting the scanners to OCaml and comparing with generate.convert_type byte-for-byte on the generated sources of the compiled models x {float32, float64, long double}, all strings up to length 3 (quick) / 5 (thorough) over a 16-symbol alphabet, and random concatenations of tricky C pieces; plus a model-free token-level oracle (own C tokenizer) stating the property directly, and the dtype-spelling table against parse_dtype.",
    note="Trusted: Coq kernel (axiom-free theorems); extraction with ExtrOcamlBasic only (no Extract Constant/Inductive of our own), OCaml 4.13.1, 40-line driver (hex codec); ASCII input only; completeness (every literal of a well-formed token stream is converted) is established by the token-level oracle and the correspondence, not by a theorem; strings / hex floats are recorded known findings.",
    technique="Coq proof (scanner soundness for all strings) + extraction-based correspondence + token-level oracle",
    design="DESIGN.md §3 C15"),
 "C05": dict(
    text="Coq theorems over the reals for ALL six angles and detector points: the kernel's qabc/qac matrices applied to (qx,qy) equal R^-1 (qx,qy,0) with R = Rz(phi) Ry(theta) Rz(psi) Rx(dphi) Ry(dtheta) Rz(dpsi) as documented (a polynomial identity, proved structurally through view/jitter factors), the symmetric-shape qab^2 = qa^2+qb^2, norm preservation (orthogonality of the product), parity I(-q) and co-rotation of (qx,qy) with phi. Tied to the code by probe plug-ins whose Iqabc/Iqac return qa|qb|qc resp. qab|qc, evaluated through the public 2-D kernel at random and special view angles with asymmetric hand-made and interface-built jitter meshes in 0..3 angles, compared with the Coq binary64 model of the rotation and of the |cos(dtheta)|-weighted jitter average (sin/cos supplied by the harness) and with a numpy oracle built from the documented matrices; jitter centred on zero and invariances are checked on the kernel.",
    note="Trusted: Coq kernel; stdlib real axioms (Reals); libm sin/cos as leaves; harness/c05.py. The binding of (qa,qb,qc) to each real model's own function arguments and 1-D inactivity of orientation parameters are exercised by the C12 and C10 checks.",
    technique="Coq proof (matrix algebra over R for all angles) + probe plug-in correspondence",
    design="DESIGN.md §3 C05"),
 "C06": dict(
    text="Coq theorems over the reals: the channel weights are (1-i)(1-f), (1-i)f, i(1-f), i f over max(f,1-f) for fractions clipped to [0,1]; P, e1, e2 are orthonormal for every polarisation direction; Mperp = M - qhat(qhat.M) is perpendicular to q; the per-q loop equals the weighted sum of the six cross-section terms for EVERY scattering function of the SLDs and any number of magnetic SLDs, and for functions even in the SLDs it is the property's four-channel form; the non-magnetic kernel is selected exactly when all magnitudes vanish. Tied to the code by an SLD-probe plug-in (a polynomial in three SLDs, with and without an odd term) evaluated through the public 2-D kernel and compared with the Coq binary64 model of the whole magnetic loop (weights, frame, projection, thresholds), and by recombining non-magnetic 2-D calls of real magnetic-capable models (incl. dispersity) against the magnetic call.",
    note="Trusted: Coq kernel; stdlib real axioms; libm sin/cos leaves supplied by the harness; the 1e-8 weight threshold is part of the statement (weights are required to be 0 or > 1e-8); evenness of real models in their SLDs is assumed, not proved; harness/c06.py.",
    technique="Coq proof (vector algebra + case analysis over R) + SLD-probe correspondence",
    design="DESIGN.md §3 C06"),
 "C07": dict(
    text="Coq theorems for every parameter count of P and S, with or without volfraction in P, beta mode, R_eff mode and magnetic block: the index arithmetic of ProductKernel picks exactly the documented pieces of the combined value vector (C07_layout_slices, any carrier), and the final combination is scale*(volfraction/<V_shell>)*<F^2>*S + background, its beta variant, and the variant without the explicit volfraction factor when P owns volfraction (reals). Tied to the code by checking the combined parameter table against the documented order and by evaluating P@S through the public API against the recombination of call_Fq(P) and call_kernel(S) - S receiving P's R_eff for the selected mode (or the user's value, with its dispersity, for mode 0) and volfraction*V_form/V_shell - in the Coq binary64 model; the reported intermediates (P(Q), S(Q), volume, volume ratio, effective radius) are compared with the values used.",
    note="Trusted: Coq kernel; stdlib real axioms for the formula theorems; harness/c07.py (recombination oracle). beta in 2-D is refused by the implementation (NotImplementedError) and counted, not compared.",
    technique="Coq proof (list-slice arithmetic for all sizes, field identities) + recombination correspondence",
    design="DESIGN.md §3 C07"),
 "C03": dict(
    text="Coq theorems over the reals for every grid, data point and width: a pinhole column (masked erf differences, normalised) is non-negative and sums to one whenever the window holds positive mass; the length-only slit bins in the u = sqrt(q'^2 - q^2) variable telescope to exactly one whenever the calculation grid covers [q, sqrt(q^2+L^2)]; applying a column is linear, so scale and background pass through and a flat intensity is returned unchanged. Tied to the code by evaluating the executable Coq model (binary64: bin_edges, pinhole column from the erf leaf, the three slit branches incl. the 61-point mixed average) against Resolution.weight_matrix on linear, log, near-zero, irregular and 1-2 point grids, and by a model-free oracle asserting the property itself (non-negativity, unit sums, constants, positive q_calc, coverage of every window, exact zero-width identity, construction without error, DirectModel linearity, 2-D accuracy levels).",
    note="Trusted: Coq kernel; stdlib real axioms; erf is a leaf (scipy.special.erf); q_calc extension (linspace/logspace, ceil, log) is checked by the oracle only; slits with q_width>0 are a recorded known finding (cannot be repaired without moving a pinned test value).",
    technique="Coq proof (normalisation, telescoping sums over R) + vm_compute correspondence + property oracle",
    design="DESIGN.md §3 C03"),
 "C04": dict(
    text="PARTIAL. Coq theorems: the first-order error bound of a midpoint scheme in discrete form (|sum m_j f(x_j) - sum m_j f(y_j)| <= L h sum m_j for L-Lipschitz f, any cells, masses and nodes), the identification of the pinhole weight with the mass the Gaussian of standard deviation sigma gives to the bin (the sqrt(2) in the erf argument), and - with Coquelicot's integral - the 2-D ring weight as the mass of rho exp(-rho^2/2) on the ring. Not carried by a theorem: the mean-value step linking the discrete bound to the integral, Lipschitz constants of the concrete intensities, the 2-D angular discretisation. These are measured: apply(f(q_calc)) against scipy quad/dblquad of the documented integrals (truncated renormalised Gaussian on [-2.5,+3] sigma; (1/L) int_0^L I(sqrt(q^2+u^2)) du; (1/2W) int I(|q+v|) dv; the double integral up to the 61-point rule; the elliptical Gaussian aligned with q truncated at 3 sigma) at three refinements, requiring the first-order bound and error(h/4) <= 0.75 error(h).",
    note="Trusted: Coq kernel; stdlib real axioms and Classical_Prop.classic (via Coquelicot); scipy.integrate as the reference; the weight matrices' tie to the Coq model is the C03 correspondence.",
    technique="Coq proof (discrete Lipschitz bound; Coquelicot FTC for the ring mass) + numerical convergence oracle",
    design="DESIGN.md §3 C04"),
 "C02": dict(
    text="Coq theorems over the reals for every distribution type, centre, width > 0, n-sigma > 0, point count >= 2 and limits: values strictly increasing (numpy linspace is strictly increasing; shift and filters keep order), inside the hard limits and the distribution's own support (x>0 for lognormal/Schulz, half-width sigma for uniform and sqrt(3) sigma for rectangle), normalised weights non-negative with unit sum, the formulas as written in weights.py equal the documented densities (Gaussian; lognormal with median = centre and the 1/x Jacobian; Schulz = z^z R^(z-1) e^(-Rz)/(c Gamma z) with z=(c/sigma)^2, i.e. mean = centre and sigma = PD*mean; Laplace), the degenerate single-point case and the relative/absolute width conventions. Tied to the code by running the executable Coq model (binary64) of the value grids and of the density arguments against get_weights (exp/log/lgamma applied by the harness), and by a model-free oracle against scipy.stats densities.",
    note="Trusted: Coq kernel; stdlib real axioms; numpy/scipy exp, log, lgamma as leaves; scipy.stats as the reference; lognormal/Schulz generated with relative widths only.",
    technique="Coq proof (sortedness of linspace, exp/ln identities over R) + two-pass vm_compute correspondence + scipy.stats oracle",
    design="DESIGN.md §3 C02"),
 "C19": dict(
    text="PARTIAL. Coq theorems over the reals: the returned value equals (1/2pi) sum_i [m_i J0(q_i xi) - 1] I_i q_i dq_i with m the acceptance mask (q lambda/2pi <= 1 and q <= zaccept), it is linear in I(q) (scaling and addition), and a grid exp(a + i d), d > 0, is positive and strictly increasing. Not carried by a theorem: the quadrature accuracy for Gaussian Hankel pairs and the single-point vs vector tolerance. Tied to the code by evaluating the Coq binary64 model (J0 supplied as a leaf) against SesansTransform.apply on intensities supported on random grid points, and by an oracle on the implementation: q_calc positive/increasing, linearity, unit intensities just inside and outside the acceptance, Gaussian and sum-of-Gaussian pairs against the closed form (1e-3), single-point data sets (10%).",
    note="Trusted: Coq kernel; stdlib real axioms; scipy.special.j0 and numpy exp/log as leaves; harness/c19.py.",
    technique="Coq proof (linearity and value formula over R) + sparse-intensity correspondence + Hankel-pair oracle",
    design="DESIGN.md §3 C19"),
 "C14": dict(
    text="PARTIAL. Coq theorems over the reals for every weighted mesh: discrete Cauchy-Schwarz (sum w F)^2 <= (sum w)(sum w F^2) for non-negative weights, hence 0 <= <F>^2 <= <F^2> after normalisation whenever the model's own F^2 dominates F*F at each mesh point; and the intensity is scale*<F^2>/<V_shell>+background built from the very tuple Fq reports. Not carried by a theorem (per-model C physics): the leaf inequality, equality as q->0 and for spherical shapes, the volume-sphere identity, positivity per mode. These are measured on every amplitude-capable model x parameter sets (incl. each model's random generator) x dispersity on/off x every effective-radius mode x 40 q values from 1e-5/size to 20/size.",
    note="Trusted: Coq kernel; stdlib real axioms; the tie of the dispersity sums (incl. the F slots) to the Coq model is the C01 correspondence; harness/c14.py.",
    technique="Coq proof (Cauchy-Schwarz by induction over the mesh) + amplitude oracle on the implementation",
    design="DESIGN.md §3 C14"),
 "C12": dict(
    text="PARTIAL. Coq obligations over the Gauss-Legendre tables regenerated from /repo/sasmodels/models/lib on every run, in exact integer arithmetic (Bignums BigZ): nodes strictly increasing in (-1,1) and antisymmetric, weights positive and symmetric, and for EVERY degree k < 2n the table integrates x^k to within 1e-13 (20 and 76 points) resp. 1e-10 (150 points: its weights only sum to 2 - 3.8e-11). Not carried by a theorem: that each model's 1-D function is that quadrature of its own 2-D function (no C semantics) and the change of variables of the spherical average. These are measured: 1-D <F^2> against the Gauss-Legendre average (n and 2n points) of the model's own Iqac/Iqabc obtained through a harness-side shim, at points where both quadratures have converged (1e-6); plus, per parameter set, a 2-D value at a random view against the particle-frame function at R^-1 q (the per-model binding of qa,qb,qc) and the 1-D inactivity of orientation parameters and their dispersity.",
    note="Trusted: Coq kernel + vm_compute with primitive 63-bit integers (PrimInt63 primitives appear under Print Assumptions); table parser in harness/c12.py; harness/shim.py (wrappers in iq_parameters order), numpy leggauss, the C compiler. core_shell_bicelle_elliptical(_belt_rough) is a recorded known finding.",
    technique="Coq computation over regenerated tables (exact BigZ arithmetic) + orientational-average oracle via shim",
    design="DESIGN.md §3 C12"),
 "C13": dict(
    text="PARTIAL. Coq theorems over the reals for every mesh: if at each mesh point F^2 scales as lambda^6, the volumes as lambda^3 and R_eff as lambda with unchanged weights, then I-background scales as lambda^3, <R_eff> as lambda and <V> as lambda^3; multiplying F^2 by mu^2 multiplies I-background by mu^2; plus, over the unit tables regenerated from /repo on every run, the classification of every shape:* model as inside or outside the property's quantifier by a Coq unit parser. Not carried by a theorem: homogeneity of each model's C formula and the binding of table order to C arguments. These are measured: call_kernel / call_Fq at (q, p) and (q/lambda, p scaled by lambda^exponent-of-its-declared-unit), and with all SLDs multiplied by mu, lambda, mu in (0.3, 3), for every in-scope model incl. vector-parameter models and every effective-radius mode.",
    note="Trusted: Coq kernel; stdlib real axioms; harness/c13.py (unit-exponent table duplicated in Python for the scaling). Four unit labels were repaired in /repo; five models are recorded known findings.",
    technique="Coq proof (homogeneity of the averaging machinery) + regenerated unit-table classification + scaling oracle",
    design="DESIGN.md §3 C13"),
 "C16": dict(
    text="Coq theorems for every value type, every interpretation of operators and functions, every caller environment and every well-formed translation (single assignment, no caller parameter assigned, definitions before use): the argument the generated kernel passes to the base function for a replaced base parameter equals the value obtained by running the translation equations in order (C16_composition: identifier substitution + TRANSLATION_VARS + call macros vs sequential evaluation), an untouched base parameter receives the caller's value, and in the derived table the new parameters replace the first removed one as a block while all other base parameters keep their order. Tied to the code by random translations (intermediates, single-letter names, conditionals, insert_after) of a probe base model whose intensity returns a selected base parameter, so the translated arguments are observed through the public kernel and compared with the Coq binary64 evaluation of generated_arg and with a Python evaluation of the equations; plus real reparameterisations (ellipsoid, cylinder, hollow_cylinder, barbell incl. its validity region) against the base model in 1-D/2-D, call_Fq tuples, and dispersity on a new parameter against the weighted average of base evaluations.",
    note="Trusted: Coq kernel (axiom-free theorems); harness/c16.py (expression generator printing both C and Coq syntax); insert_after placement is checked by the oracle only.",
    technique="Coq proof (substitution/evaluation commutation by induction over the assignment list) + probe-model correspondence",
    design="DESIGN.md §3 C16"),
 "C10": dict(
    text="Coq theorems for every parameter table, every set of keyword names and every string: a key that is neither a call-parameter name nor one of the four dispersity suffixes of a dispersible parameter makes get_mesh / create_parameters refuse the call whatever else it contains, a call using only accepted names is not refused for its names, a suffix on a non-dispersible parameter is not an accepted name, setParam refuses every name that is not a visible parameter (or field of a visible dispersible one), the two naming schemes (name_pd_n vs name.npts ...) correspond one to one, and the points for which theory is returned are exactly the order-preserving filter of the data by (q within limits, mask 0, data not NaN). Tied to the code by running the executable Coq model (vm_compute; binary64 for the selection predicate) on the same key sets / setParam calls / masked data objects as call_kernel, DirectModel, Iq, bumps Model and SasviewModel.setParam, with the tables read from /repo on each run; the agreement of the four interfaces (1e-12) over models x parameter/dispersity settings in both naming schemes x multiplicity x 1-D/2-D/pinhole/slit data, hidden scale/background of structure factors and array distributions is decided by a model-free comparison.",
    note="Trusted: Coq kernel + vm_compute (axiom-free theorems); harness/c10.py (stub bumps.parameter, scheme translation, point-by-point selection oracle); the numerical agreement of the interfaces is measured, not proved (the kernel call they share is C01's subject).",
    technique="Coq proof (list/string membership, filter) + vm_compute correspondence + cross-interface differential oracle",
    design="DESIGN.md §3 C10"),
}
NA_REASON = "check not built yet in this session (planned, see DESIGN.md §7)"

def main():
    checks = []
    for pid in ALL:
        if pid in CLAIMED:
            c = CLAIMED[pid]
            checks.append({
                "property_id": pid,
                "quick_cmd": "./check %s --tier quick" % pid,
                "thorough_cmd": "./check %s --tier thorough" % pid,
                "evidence_file": "/verif/evidence/%s.json" % pid,
                "replay_cmd_template": "./check %s --replay {path}" % pid,
                "engine": "coq-sm",
                "level_claimed": {"category": c.get("category", "proof"), "text": c["text"], "design_ref": c["design"]},
                "level_note": c["note"],
                "technique": c["technique"],
            })
    na = [{"property_id": p, "reason": NA_REASON} for p in ALL if p not in CLAIMED]
    m = {
        "version": 1,
        "setup_cmd": "./check setup",
        "hooks": {"guard": "SASMODELS_VERIF", "enable": "no instrumentation hooks: checks observe public entry points only (guard name reserved, unused)",
                  "baseline_off_cmd": "cd /repo && /venv/bin/python -m pytest -ra -q -p no:cacheprovider --timeout=900 --continue-on-collection-errors",
                  "source_commits": [], "add_only": True},
        "engines": [{"name": "coq-sm", "path": "/verif/coq", "serves_properties": sorted(CLAIMED),
                     "kind_free_text": "Coq 8.16.1 development (theories/Base, theories/Cnn) + Python harness running the executable models against /repo"}],
        "checks": checks,
        "not_applicable": na,
        "notes": "All checks: ./check <ID> --tier quick|thorough. known_findings.json lists recorded and fixed defects.",
    }
    with open(os.path.join(VERIF, "MANIFEST.json"), "w") as f:
        json.dump(m, f, indent=1)
    print("claimed:", sorted(CLAIMED))

if __name__ == "__main__":
    main()
