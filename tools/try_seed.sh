#!/bin/bash
# tools/try_seed.sh <seed-dir-with-patch.diff> <ID> [tier]  : run a check against a scratch
# worktree of /repo with the seeded patch applied (never touches /repo's working tree).
set -u
SD=$(realpath "$1"); ID=$2; TIER=${3:-quick}
WT=$(mktemp -d /tmp/seedwt_XXXX)
git -C /repo worktree add -q --detach "$WT" HEAD || exit 2
git -C "$WT" apply "$SD/patch.diff" || { echo "patch does not apply"; git -C /repo worktree remove --force "$WT"; exit 2; }
cd "$(dirname "$0")/.."
VERIF_REPO="$WT" ./check "$ID" --tier "$TIER" 2>&1 | tail -${TAIL:-15}
rc=${PIPESTATUS[0]}
git -C /repo worktree remove --force "$WT"
# restore the generated Coq files to those of /repo (the trial regenerated them from the changed tree)
PYTHONPATH=/repo PYTHONHASHSEED=0 /venv/bin/python - <<'PY' >/dev/null 2>&1
import importlib, os, sys
os.environ.pop("VERIF_REPO", None)
sys.path.insert(0, ".")
from harness import main as _m
for name in _m.GEN_MODULES:
    importlib.import_module("harness." + name).gen()
PY
echo "check rc=$rc"
exit $rc
