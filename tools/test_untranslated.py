"""tools/test_untranslated.py — the generated-code obligations must stay buildable when a source cannot be translated
(Gen/*_code.v then says translated = false and holds placeholders): force every translator to fail in turn,
rebuild, and report.  Restores the real Gen files afterwards.  Run with PYTHONPATH=/repo /venv/bin/python."""
import importlib
import sys

sys.path.insert(0, ".")
from harness import common, ctrans, nptrans  # noqa: E402

MODS = [a for a in sys.argv[1:]] or ["c01", "c02", "c03", "c05", "c06", "c07", "c08", "c09", "c10", "c15", "c17", "c18", "c19"]


def fail(*a, **k):
    raise ctrans.Untranslatable("forced by tools/test_untranslated.py")


bad = []
for name in MODS:
    m = importlib.import_module("harness." + name)
    saved = {}
    for attr in dir(m):
        if attr.startswith("_translate"):
            saved[(m, attr)] = getattr(m, attr)
            U = getattr(m, "Untranslatable", ctrans.Untranslatable)

            def f(*a, U=U, **k):
                raise U("forced by tools/test_untranslated.py")
            setattr(m, attr, f)
    for tgt, attr in ((ctrans, "parse_function"), (ctrans, "function_text"), (nptrans, "function_body")):
        saved[(tgt, attr)] = getattr(tgt, attr)
        setattr(tgt, attr, fail)
    try:
        note = m.gen()
    except Exception as exc:  # noqa
        note = "gen() raised %r" % (exc,)
    for (tgt, attr), v in saved.items():
        setattr(tgt, attr, v)
    ok, log = common.coq_make(jobs=16)
    print("%s: note=%s build=%s" % (name, (str(note) or "")[:80], "ok" if ok else "FAILED"))
    if not ok:
        bad.append(name)
        print(log[-1500:])
    m.gen()
ok, log = common.coq_make(jobs=16)
print("restored: build=%s" % ("ok" if ok else "FAILED"))
sys.exit(1 if bad or not ok else 0)
