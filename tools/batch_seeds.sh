#!/bin/bash
# tools/batch_seeds.sh <seed-dir-name>...: confirm and try each seeded change (in this copy of /verif)
cd "$(dirname "$0")/.."
for s in "$@"; do
  id=${s:0:3}
  echo "##### $s"
  tools/confirm_seed.sh seeded/$s $id 2>&1 | grep -E "demo on|passed|CONFIRMED|PATCH"
  TAIL=6 tools/try_seed.sh seeded/$s $id quick 2>&1 | grep -v "KNOWN\|Warning\|q_phi" | cut -c1-300
done
