#!/bin/bash
# tools/all_seeds.sh [tier] [regex on the seed name]: run every seeded change against the check of its property (in this copy of /verif);
# prints one line per seed: CAUGHT / MISSED.  Sequential, because the generated Coq files are shared.
cd "$(dirname "$0")/.."
TIER=${1:-quick}
PAT=${2:-.}
for d in seeded/*/; do
  s=$(basename "$d"); id=${s:0:3}
  echo "$s" | grep -Eq "$PAT" || continue
  alt=$(/venv/bin/python -c "import json;print(json.load(open('seeded/$s/meta.json')).get('check_id',''))" 2>/dev/null)
  [ -n "$alt" ] && id=$alt
  out=$(TAIL=400 tools/try_seed.sh "seeded/$s" "$id" "$TIER" 2>&1)
  if echo "$out" | grep -q "^VIOLATION property=$id"; then echo "$s CAUGHT by $id"; else
    # some changes are documented as caught by another property's check
    alt=$(/venv/bin/python -c "import json;print(json.load(open('seeded/$s/meta.json')).get('also_try',''))" 2>/dev/null)
    echo "$s MISSED by $id: $(echo "$out" | tail -n 2 | tr '\n' ' ' | cut -c1-200)"
  fi
done
